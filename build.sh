#!/bin/bash
# Builds the simulation worker(s) from /repo's current working tree:
# copy (no tests, no .git) -> cmd/rewrite -> go build (plain and/or -race).
# Usage: build.sh [plain|race|both]   prints the directory holding the binaries.
# Exit status 2 on any build trouble (never a VIOLATION).
set -u
what="${1:-plain}"
export GOFLAGS=-mod=mod GOPROXY=off GOSUMDB=off GOTOOLCHAIN=local CGO_ENABLED=1
V=/verif
REPO="${VERIF_REPO:-/repo}"
SIM="${VERIF_SIM:-$V/sim}"   # development copy of the simulator sources (default: the committed ones)
fail() { echo "build: $*" >&2; exit 2; }
[ -x $V/bin/rewrite ] || (cd $V/tools && go build -o $V/bin/rewrite ./cmd/rewrite) || fail "cannot build rewriter"
H=$( (cd "$REPO" && for f in $(ls *.go | grep -v _test.go) go.mod; do echo "$f"; cat "$f"; done; cd $SIM && find . -name '*.go' -o -name go.mod | sort | xargs cat; cat $V/tools/cmd/rewrite/main.go) | sha256sum | cut -c1-20)
OUT=$V/.cache/bin/$H
need_plain=0; need_race=0
need_real=0
case "$what" in plain) need_plain=1;; race) need_race=1;; both) need_plain=1; need_race=1;; real) need_real=1;; esac
[ $need_real = 1 ] && [ -x $OUT/mosssim-real ] && need_real=0
[ $need_plain = 1 ] && [ -x $OUT/mosssim ] && need_plain=0
[ $need_race = 1 ] && [ -x $OUT/mosssim-race ] && need_race=0
if [ $need_real = 1 ]; then
  # differential build: harness linked against the UNREWRITTEN tree (real goroutines)
  S=/dev/shm/verif-build-real-$H-$$
  rm -rf $S; mkdir -p $S/moss $OUT || fail "mkdir"
  (cd "$REPO" && for f in *.go go.mod go.sum; do case $f in *_test.go) ;; *) cp $f $S/moss/ ;; esac; done) || fail "copy"
  sed "s#=> /dev/shm/verif-dev/moss#=> $S/moss#" $SIM/go.mod > $S/go.mod
  cp $SIM/go.sum $S/go.sum
  (cd $SIM && go build -modfile=$S/go.mod -o $OUT/mosssim-real ./cmd/mosssim) >&2 || { rm -rf $S; fail "go build (real) failed"; }
  rm -rf $S
fi
if [ $need_plain = 1 ] || [ $need_race = 1 ]; then
  S=/dev/shm/verif-build-$H-$$
  rm -rf $S; mkdir -p $S/moss $OUT || fail "mkdir"
  trap 'rm -rf $S' EXIT
  (cd "$REPO" && for f in *.go go.mod go.sum; do case $f in *_test.go) ;; *) cp $f $S/moss/ ;; esac; done) || fail "copy"
  sed -i 's/^go 1\.[0-9]*$/go 1.21/' $S/moss/go.mod
  (cd $S/moss && $V/bin/rewrite . > $S/rewrite.log 2>&1) || { cat $S/rewrite.log >&2; fail "rewrite failed"; }
  sed "s#=> /dev/shm/verif-dev/moss#=> $S/moss#" $SIM/go.mod > $S/go.mod
  cp $SIM/go.sum $S/go.sum
  if [ $need_plain = 1 ]; then
    (cd $SIM && go build -modfile=$S/go.mod -o $OUT/mosssim.tmp ./cmd/mosssim) >&2 || fail "go build failed"
    mv $OUT/mosssim.tmp $OUT/mosssim
  fi
  if [ $need_race = 1 ]; then
    (cd $SIM && go build -race -modfile=$S/go.mod -o $OUT/mosssim-race.tmp ./cmd/mosssim) >&2 || fail "go build -race failed"
    mv $OUT/mosssim-race.tmp $OUT/mosssim-race
  fi
  cp $S/rewrite.log $OUT/rewrite.log
  # keep the cache small: drop trees beyond the 40 newest that have not been used for 3 hours
  # (a concurrent check may still be running from an older one)
  touch $OUT
  ls -1dt $V/.cache/bin/*/ 2>/dev/null | tail -n +41 | while read d; do
    [ -n "$(find "$d" -maxdepth 0 -mmin +180 2>/dev/null)" ] && rm -rf "$d"
  done
fi
touch $OUT 2>/dev/null
echo $OUT
