#!/usr/bin/env python3
# Generates MANIFEST.json from the table below (kept in one place so that it stays valid).
import json
claimed = {
 "C01": ("exploration", "Seeded search over batch histories x schedules of merger/persister/compactor x option swarm; a reference ordered map is compared (point reads under both copy modes + full iteration) after every batch and at verify points, in memory, store-backed and with a custom lower level, across reopen.", "4 C01"),
 "C02": ("exploration", "Snapshots, child snapshots, store snapshots and iterators (also iterators that outlive their snapshot and are sought back after exhaustion) are opened at seeded points and re-read after every later step (batches, merger cycles incl. refused ones, persist rounds incl. ones failing on transient I/O faults, partial and forced compactions that unlink their file, collection/store close in drawn orders) against a frozen clone of the model; faults on unmapped memory are trapped.", "4 C02, 9.2"),
 "C03": ("exploration", "N writers on disjoint key families (incl. their own child collections) and M readers run under seeded interleavings at every synchronisation point; the recorded invoke/return history is checked for per-writer atomic prefixes, real-time visibility and monotonicity, directly and with porcupine; order-sensitive Merge accumulators per writer are read through snapshots and through direct Collection.Get.", "4 C03, 9.2"),
 "C04": ("exploration", "Store-backed histories with close/reopen at seeded points relative to merger/persister progress and re-drawn store options; the reopened content must be a batch prefix not older than what the store had exposed, and the full content once persistence had caught up.", "4 C04"),
 "C05": ("fault_enumeration", "For every recorded file-op trace every crash point is visited and the images the stated crash model allows (process-kill prefix with the last write torn at boundary bytes; power-loss images from per-file synced state plus subsets of un-synced page blocks and length variants) are reopened with ordinary moss and judged: opens, is a batch prefix, not older than the last synced round, still usable.", "4 C05"),
 "C06": ("fault_enumeration", "For every fault-free trace one re-run per fault-eligible file operation x error kind (EIO, short write with and without error, ENOSPC, sync/stat/open/remove/readdir errors, failing segment mmap) plus bursts and persistent faults; oracles: collection unchanged, store prefix monotone, success implies the directory as written (and, with syncing, the synced-only power-loss image) reopens to that round, failed rounds surfaced through OnError, catch-up after faults stop, final reopen.", "4 C06"),
 "C07": ("exploration", "Compaction option swarm (disable / level-based partial / forced / idle via simulated clock) x histories x persist-round placement; store content may only move to a later prefix; after a full compaction the footer shape (<=1 segment per collection, no deletions, one entry per live key) and the directory listing are checked.", "4 C07"),
 "C08": ("exploration", "Set/Del/Merge chains with an order-sensitive operator spread by the scheduler over top/mid/base/clean/persisted segments, partial and full compactions, custom lower level and reopen; every read is compared with the model's left fold.", "4 C08"),
 "C09": ("exploration", "The scheduler steers the collection into the snapshot shapes the quantifier names; on each reached snapshot generated Next/SeekTo/Current programs with generated bounds run against a sorted-slice model (the program dimension is seeded generation against a sequential model; the schedule supplies the shapes).", "4 C09"),
 "C10": ("exploration", "At every driver turn Collection.Get, Snapshot.Get (both copy modes) and iteration are compared with each other through the model for every probe key; copied values are re-compared after snapshot, collection and store are closed.", "4 C10"),
 "C11": ("exploration", "Histories over a tree of child names (create, write, delete, recreate, nested, child-only and empty child batches) x schedules x compaction concerns x reopen against a tree-shaped model, on collection snapshots, store snapshots and after reopen.", "4 C11"),
 "C12": ("exploration", "Persist-round histories; SnapshotPrevious walks are compared with the list of contents the store exposed per round since the last compaction; SnapshotRevert targets at seeded depths followed by reopen or OpenCollection and further batches; 30 % of the runs carry transient I/O faults (failed rounds, failed full compactions) and a share drives Store.Persist directly with a per-round compaction concern.", "4 C12, 9.2"),
 "C13": ("exploration", "A map-backed lower level applying LowerLevelUpdate by the documented protocol, with seeded failures, bursts, stalls and back-pressure limits; the lower level alone must be a monotone batch prefix, collection = reference at every turn, failed updates re-offered, full content after drain.", "4 C13"),
 "C15": ("exploration", "Handles (snapshots, child snapshots, iterators incl. ones that outlive their snapshot, store snapshots) are opened and closed at seeded points around rounds, compactions and closes and finally in a PRNG-chosen order; then /proc/self/fd, /proc/self/maps and the directory listing are inspected (GC off so no finalizer hides a leak).", "4 C15"),
 "C16": ("exploration", "Writers against small MaxPreMergerBatches / dirty limits, slow/failing/stalled lower level (custom map or mossStore with transient I/O faults), sync and async notifications incl. bursts and a Close from another task; deadlock detector, bounded liveness under a fair suffix once faults stop, CurDirtyTopSegments bound, ErrClosed contract.", "4 C16"),
 "C17": ("exploration", "The C03/C16 concurrent workloads under the -race build; the scheduler's baton travels over raw pipes and its state lives in go:norace code, so the Go race detector judges moss by moss's own synchronisation; any report whose racing access lies in package moss is a violation.", "4 C17"),
 "C18": ("exploration", "Directories left by clean runs and by crash images (plus junk files) are opened ReadOnly under the option swarm and driven with reads, batches, notifications and closes; byte-for-byte directory equality, no mutating file operation recorded, the content served is a batch prefix not older than the last round completed in the directory and equals what a read-write open of a copy serves; one- and two-step open API; junk files and junk sub-directories.", "4 C18, 9.2"),
 "C19": ("exploration", "Byte-class keys/values (empty, 0x00/0xFF, magic-prefixed, page-boundary lengths), plain and Alloc-built operations (registered at once or late), wide batches, DeferredSort/CachePersisted, compared bit-exactly through memory, merge, persist, compaction and reopen stages the scheduler reaches (stage placement is the simulated dimension; the byte classes are input generation).", "4 C19"),
 "C20": ("exploration", "Stats() is sampled at every driver turn incl. child-only/delete-only batches on mossStore and the map lower level; zero dirty gauges must imply lower level == reference (and a reopen at that instant loses nothing); once drained, the gauges must reach zero under a fair schedule.", "4 C20"),
}
techniques = {k: "deterministic simulation: seeded scheduler + reference-model oracle" for k in claimed}
techniques.update({
 "C03": "deterministic simulation: seeded interleavings + history check (direct + porcupine)",
 "C05": "deterministic simulation: recorded file-op trace + crash-image enumeration",
 "C06": "deterministic simulation: per-operation I/O fault enumeration over a recorded trace",
 "C16": "deterministic simulation: seeded interleavings + deadlock detector + bounded liveness under a fair suffix",
 "C17": "deterministic simulation under the Go race detector (scheduler invisible to the detector)",
 "C18": "deterministic simulation: recorded file layer + directory hashing over crash-image directories",
})
notes = {}
checks = []
for pid in sorted(claimed):
    lvl, text, ref = claimed[pid]
    checks.append({
        "property_id": pid,
        "quick_cmd": f"./check {pid} quick",
        "thorough_cmd": f"./check {pid} thorough",
        "evidence_file": f"/verif/evidence/{pid}.json",
        "replay_cmd_template": "./check replay {path}",
        "engine": "mosssim",
        "level_claimed": {"category": lvl, "text": text, "design_ref": f"DESIGN.md section {ref}"},
        "level_note": notes.get(pid, "Sampling, not proof. Trusted: the source rewriter (cmd/rewrite) preserves moss semantics; simrt's Mutex/Cond/channel models follow Go's documented semantics; context switches only at synchronisation/I/O/clock points; tmpfs+mmap stand in for a disk."),
        "technique": techniques[pid],
    })
m = {
 "version": 1,
 "setup_cmd": "cd /verif && export GOFLAGS=-mod=mod GOPROXY=off GOSUMDB=off GOTOOLCHAIN=local && mkdir -p bin && (cd tools && go build -o ../bin/rewrite ./cmd/rewrite && go build -o ../bin/vcheck ./cmd/vcheck) && ./build.sh both >/dev/null",
 "hooks": {
  "guard": "verif",
  "enable": "no hooks are committed to /repo: every check copies /repo's working tree to /dev/shm, rewrites it with cmd/rewrite (sync/chan/go/select/map-range/time/os call sites -> verifsim/simrt) and builds the worker against that copy (build.sh); the build tag is unused",
  "baseline_off_cmd": "cd /repo && go test -vet=off -count=1 -timeout 25m ./...",
  "source_commits": [],
  "add_only": True
 },
 "engines": [
  {"name": "mosssim", "path": "/verif/sim", "serves_properties": sorted(claimed), "kind_free_text": "deterministic simulator: seeded cooperative scheduler (simrt), recorded/faulty file layer, reference-model oracles, crash-image builder, minimiser; driven by /verif/check via tools/cmd/vcheck"}
 ],
 "checks": checks,
 "not_applicable": [
  {"property_id": "C14", "reason": "pure function of (segment bytes, index options, probe key): no schedule, clock, fault or interleaving for a simulator to decide; incidental coverage only via the index knobs in the option swarm (DESIGN.md section 6)"}
 ],
 "notes": "fix: commits in /repo are repairs of genuine defects found by these checks (see known_findings.json and DESIGN.md section 9.3); one known finding (KF1, C20)."
}
json.dump(m, open("/verif/MANIFEST.json","w"), indent=1)
print("claimed", len(checks))
