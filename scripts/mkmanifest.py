#!/usr/bin/env python3
# Generates MANIFEST.json from the table below (kept in one place so that it stays valid).
import json
claimed = {
 "C01": ("exploration", "Seeded search over batch histories x schedules of merger/persister/compactor x option swarm; a reference ordered map is compared (point reads under both copy modes + full iteration) after every batch and at verify points, in memory, store-backed and with a custom lower level, across reopen.", "4 C01"),
}
techniques = {
 "C01": "deterministic simulation: seeded scheduler + reference-model oracle",
}
notes = {}
checks = []
for pid in sorted(claimed):
    lvl, text, ref = claimed[pid]
    checks.append({
        "property_id": pid,
        "quick_cmd": f"./check {pid} quick",
        "thorough_cmd": f"./check {pid} thorough",
        "evidence_file": f"/verif/evidence/{pid}.json",
        "replay_cmd_template": "./check replay {path}",
        "engine": "mosssim",
        "level_claimed": {"category": lvl, "text": text, "design_ref": f"DESIGN.md section {ref}"},
        "level_note": notes.get(pid, "Sampling, not proof. Trusted: the source rewriter (cmd/rewrite) preserves moss semantics; simrt's Mutex/Cond/channel models follow Go's documented semantics; context switches only at synchronisation/I/O/clock points; tmpfs+mmap stand in for a disk."),
        "technique": techniques[pid],
    })
m = {
 "version": 1,
 "setup_cmd": "cd /verif && export GOFLAGS=-mod=mod GOPROXY=off GOSUMDB=off GOTOOLCHAIN=local && mkdir -p bin && (cd tools && go build -o ../bin/rewrite ./cmd/rewrite && go build -o ../bin/vcheck ./cmd/vcheck) && ./build.sh plain >/dev/null",
 "hooks": {
  "guard": "verif",
  "enable": "no hooks are committed to /repo: every check copies /repo's working tree to /dev/shm, rewrites it with cmd/rewrite (sync/chan/go/select/map-range/time/os call sites -> verifsim/simrt) and builds the worker against that copy (build.sh); the build tag is unused",
  "baseline_off_cmd": "cd /repo && go test -vet=off -count=1 -timeout 25m ./...",
  "source_commits": [],
  "add_only": True
 },
 "engines": [
  {"name": "mosssim", "path": "/verif/sim", "serves_properties": sorted(claimed), "kind_free_text": "deterministic simulator: seeded cooperative scheduler (simrt), recorded/faulty file layer, reference-model oracles, crash-image builder, minimiser; driven by /verif/check via tools/cmd/vcheck"}
 ],
 "checks": checks,
 "not_applicable": [
  {"property_id": "C14", "reason": "pure function of (segment bytes, index options, probe key): no schedule, clock, fault or interleaving for a simulator to decide; incidental coverage only via the index knobs in the option swarm (DESIGN.md section 6)"}
 ],
 "notes": "fix: commits in /repo are repairs of genuine defects found by these checks (see known_findings.json and DESIGN.md section 5)."
}
json.dump(m, open("/verif/MANIFEST.json","w"), indent=1)
print("claimed", len(checks))
