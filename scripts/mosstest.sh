#!/bin/bash
# runs the unedited moss suite on /repo's working tree
export GOFLAGS=-mod=mod GOPROXY=off GOSUMDB=off GOTOOLCHAIN=local
cd /repo && go build ./... && go test -vet=off -count=1 -timeout 25m ./... 2>&1 | tail -15
