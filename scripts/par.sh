#!/bin/bash
# par.sh <prop> <seed> <budget> [tier] : run 16 workers, print summary
B=$(/verif/build.sh plain) || exit 2
P=$1; S=$2; T=${3:-10s}; TIER=${4:-quick}
D=/dev/shm/verif-dev/out-$P; rm -rf $D; mkdir -p $D
for w in $(seq 0 15); do GOMAXPROCS=1 $B/mosssim -prop $P -seed $S -tier $TIER -start $w -stride 16 -budget $T -maxviol 1000 -outdir $D/rp > $D/w$w.jsonl 2>$D/w$w.err & done; wait
cat $D/w*.jsonl | /verif/scripts/summ.py; cat $D/w*.err | head -20
