#!/bin/bash
B=$(/verif/build.sh race) || exit 2
P=${1:-C17}; S=${2:-1}; T=${3:-10s}; TIER=${4:-quick}
D=/dev/shm/verif-dev/out-$P; rm -rf $D; mkdir -p $D
for w in $(seq 0 15); do GOMAXPROCS=1 GORACE="halt_on_error=0 exitcode=0 log_path=$D/race$w" VERIF_RACELOG=$D/race$w $B/mosssim-race -prop $P -seed $S -tier $TIER -start $w -stride 16 -budget $T -maxviol 1000 -outdir $D/rp > $D/w$w.jsonl 2>$D/w$w.err & done; wait
cat $D/w*.jsonl | /verif/scripts/summ.py; cat $D/w*.err | head -20
