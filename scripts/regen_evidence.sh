#!/bin/bash
# regenerates every evidence/<id>.json from the quick tier on /repo's working tree (which must be unchanged);
# refuses to leave an evidence file that reports a violation
cd /verif || exit 2
[ -z "$(git -C /repo status --porcelain)" ] || { echo "regen: /repo has local changes"; exit 2; }
rc=0
for p in ${@:-C01 C02 C03 C04 C05 C06 C07 C08 C09 C10 C11 C12 C13 C15 C16 C17 C18 C19 C20}; do
  ./check $p quick > /tmp/regen-$p.log 2>&1; e=$?
  echo "$p exit=$e $(grep -E '^check: [0-9]' /tmp/regen-$p.log) $(grep -c '^KNOWN-FINDING' /tmp/regen-$p.log) known-finding lines"
  [ $e -eq 0 ] || { rc=1; grep -E 'VIOLATION|check:' /tmp/regen-$p.log | head -5; }
done
exit $rc
