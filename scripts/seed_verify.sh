#!/bin/bash
# seed_verify.sh <id> <patch.diff> <demo_test.go> : confirm a seeded change in a scratch worktree of /repo
# (compiles, unedited suite passes with it, demo fails with it and passes without it); writes /verif/seeded/<id>/verify.log
export GOFLAGS=-mod=mod GOPROXY=off GOSUMDB=off GOTOOLCHAIN=local
ID=$1; PATCH=$2; DEMO=$3
W=/tmp/seedwt-$ID
git -C /repo worktree remove --force $W 2>/dev/null; rm -rf $W
git -C /repo worktree add -q --detach $W HEAD || exit 2
OUT=/verif/seeded/$ID; mkdir -p $OUT
cp $PATCH $OUT/patch.diff; cp $DEMO $OUT/$(basename $DEMO)
L=$OUT/verify.log; : > $L
cd $W
echo "tree: $(git -C /repo log --format=%h -1)" >> $L
git apply $PATCH >> $L 2>&1 || { echo "RESULT patch-does-not-apply" >> $L; git -C /repo worktree remove --force $W; exit 1; }
go build ./... >> $L 2>&1 && echo "build-with-patch: ok" >> $L || echo "build-with-patch: FAIL" >> $L
go test -vet=off -count=1 -timeout 25m . > $W/suite.out 2>&1; tail -3 $W/suite.out >> $L
grep -q "^ok" $W/suite.out && echo "suite-with-patch: ok" >> $L || echo "suite-with-patch: FAIL" >> $L
cp $DEMO $W/zz_demo_test.go
TESTS=$(grep -o "^func Test[A-Za-z0-9_]*" $W/zz_demo_test.go | sed 's/func //' | paste -sd'|')
go test $DEMOFLAGS -vet=off -count=1 -timeout 10m -run "^($TESTS)\$" . > $W/demo1.out 2>&1; tail -4 $W/demo1.out >> $L
grep -q "^ok" $W/demo1.out && echo "demo-with-patch: PASS (unexpected)" >> $L || echo "demo-with-patch: FAIL (expected)" >> $L
git apply -R $PATCH
go test $DEMOFLAGS -vet=off -count=1 -timeout 10m -run "^($TESTS)\$" . > $W/demo0.out 2>&1; tail -3 $W/demo0.out >> $L
grep -q "^ok" $W/demo0.out && echo "demo-without-patch: PASS (expected)" >> $L || echo "demo-without-patch: FAIL (unexpected)" >> $L
cd /; git -C /repo worktree remove --force $W
grep -E "^(build|suite|demo)-" $L | tr '\n' ';'; echo
