#!/usr/bin/env python3
"""Determinism self-test: the same (property, seed, index) must give the same
trace hash (every scheduling decision + every oracle observation), step count and
verdict in separate processes, under several GOMAXPROCS values, in both builds.
Writes /verif/evidence/determinism.json; exit 0 iff no divergence."""
import json, os, subprocess, sys, time
V='/verif'
def build(what):
    return subprocess.run([V+'/build.sh',what],capture_output=True,text=True,check=True).stdout.strip()
def run(binp, prop, start, count, gmp, seed):
    env=dict(os.environ, GOMAXPROCS=str(gmp), GORACE='halt_on_error=0 exitcode=0')
    out=subprocess.run([binp,'-prop',prop,'-seed',str(seed),'-start',str(start),'-count',str(count),'-maxviol','1000'],capture_output=True,text=True,env=env,timeout=1800)
    res={}
    for l in out.stdout.splitlines():
        if not l.startswith('{'): continue
        d=json.loads(l); o=d['outcome']
        res[d['index']]=(o['traceHash'],o['interHash'],o['steps'],(o.get('violation') or {}).get('class'))
    return res
def main():
    quick = len(sys.argv)>1 and sys.argv[1]=='quick'
    props=['C01','C03','C04','C11','C12','C13','C16','C20'] if not quick else ['C01','C03','C11']
    nseeds = 64 if not quick else 16
    t0=time.time(); diverged=[]; compared=0
    plain=build('plain')+'/mosssim'
    for prop in props:
        base=None
        for rep,gmp in [(0,1),(1,1),(2,4),(3,16)]:
            r=run(plain,prop,0,nseeds,gmp,7)
            if base is None: base=r; continue
            for i,v in r.items():
                compared+=1
                if base.get(i)!=v: diverged.append((prop,'plain',i,gmp,base.get(i),v))
    if not quick or True:
        race=build('race')+'/mosssim-race'
        for prop in (['C17'] if quick else ['C17','C03']):
            base=None
            for rep,gmp in [(0,1),(1,1),(2,4)]:
                r=run(race,prop,0,(8 if quick else 24),gmp,7)
                if base is None: base=r; continue
                for i,v in r.items():
                    compared+=1
                    if base.get(i)!=v: diverged.append((prop,'race',i,gmp,base.get(i),v))
    ev={'compared_runs':compared,'diverged':len(diverged),'examples':diverged[:10],'props':props,'seeds_per_prop':nseeds,'wall_s':time.time()-t0,
        'what':'trace hash = FNV over every scheduling decision (step, chosen task, site) and every oracle observation; compared across processes and GOMAXPROCS 1/4/16, plain and -race builds'}
    json.dump(ev,open(V+'/evidence/determinism.json','w'),indent=1)
    print(json.dumps({k:ev[k] for k in ('compared_runs','diverged','wall_s')}))
    for d in diverged[:10]: print('DIVERGED',d)
    sys.exit(1 if diverged else 0)
main()
