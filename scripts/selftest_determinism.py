#!/usr/bin/env python3
"""Determinism self-test: the same (property, seed, index) must give the same
trace hash (every scheduling decision + every oracle observation), step count and
verdict in separate processes, under several GOMAXPROCS values, in both builds.
Writes /verif/evidence/determinism.json; exit 0 iff no divergence."""
import json, os, subprocess, sys, time
V='/verif'
def build(what):
    return subprocess.run([V+'/build.sh',what],capture_output=True,text=True,check=True).stdout.strip()
def run(binp, prop, start, count, gmp, seed):
    env=dict(os.environ, GOMAXPROCS=str(gmp), GORACE='halt_on_error=0 exitcode=0')
    out=subprocess.run([binp,'-prop',prop,'-seed',str(seed),'-start',str(start),'-count',str(count),'-maxviol','1000'],capture_output=True,text=True,env=env,timeout=1800)
    res={}
    for l in out.stdout.splitlines():
        if not l.startswith('{'): continue
        d=json.loads(l); o=d['outcome']
        res[d['index']]=(o['traceHash'],o['interHash'],o['steps'],(o.get('violation') or {}).get('class'))
    return res
def main():
    from concurrent.futures import ThreadPoolExecutor
    quick = len(sys.argv)>1 and sys.argv[1]=='quick'
    allp=['C01','C02','C03','C04','C05','C06','C07','C08','C09','C10','C11','C12','C13','C15','C16','C18','C19','C20']
    props=allp if not quick else ['C01','C03','C06','C11','C16']
    heavy={'C06':6,'C05':16}
    nseeds = 64 if not quick else 16
    gmps=[1,1,4,4,16,16] if not quick else [1,1,4,16]
    t0=time.time(); diverged=[]; compared=0; procs=0
    plain=build('plain')+'/mosssim'
    race=build('race')+'/mosssim-race'
    jobs=[]
    for prop in props:
        for tier_seed in ([7] if quick else [7,11]):
            for rep,gmp in enumerate(gmps):
                jobs.append((plain,'plain',prop,heavy.get(prop,nseeds),gmp,tier_seed,rep))
    for prop in (['C17'] if quick else ['C17','C03','C16']):
        for rep,gmp in enumerate([1,1,4] if quick else [1,1,4,16]):
            jobs.append((race,'race',prop,(8 if quick else 24),gmp,7,rep))
    def do(j):
        binp,kind,prop,n,gmp,seed,rep=j
        return j,run(binp,prop,0,n,gmp,seed)
    results={}
    with ThreadPoolExecutor(max_workers=int(os.environ.get('VERIF_WORKERS','8'))) as ex:
        for j,r in ex.map(do,jobs):
            procs+=1
            key=(j[1],j[2],j[5])
            if key not in results:
                results[key]=(j,r); continue
            base=results[key][1]
            if len(r)!=len(base): diverged.append((j[2],j[1],'run-count',j[4],len(base),len(r)))
            for i,v in r.items():
                compared+=1
                if base.get(i)!=v: diverged.append((j[2],j[1],i,j[4],base.get(i),v))
    ev={'compared_runs':compared,'processes':procs,'diverged':len(diverged),'examples':diverged[:10],'props':props,'seeds_per_prop':nseeds,'gomaxprocs':gmps,'wall_s':time.time()-t0,
        'what':'trace hash = FNV over every scheduling decision (step, chosen task, site) and every oracle observation; each (build, property, seed) batch is executed by several separate processes under GOMAXPROCS 1/4/16 and compared run by run with the first; plain and -race builds'}
    json.dump(ev,open(V+'/evidence/determinism.json','w'),indent=1)
    print(json.dumps({k:ev[k] for k in ('compared_runs','processes','diverged','wall_s')}))
    for d in diverged[:10]: print('DIVERGED',d)
    sys.exit(1 if diverged else 0)
main()
