#!/bin/bash
# Rewriter regression test: a toy package with constructs beyond what moss uses today (range over a channel,
# labeled select, nested receive) is rewritten, built and run under the scheduler for several seeds.
export GOFLAGS=-mod=mod GOPROXY=off GOSUMDB=off GOTOOLCHAIN=local
S=/dev/shm/verif-rwt-$$; rm -rf $S; mkdir -p $S/lib $S/cmd; trap 'rm -rf $S' EXIT
cp /verif/tools/rwtest/lib/lib.go.txt $S/lib/lib.go; cp /verif/tools/rwtest/cmd/main.go.txt $S/cmd/main.go
printf 'module rwt\n\ngo 1.21\n\nrequire verifsim v0.0.0\n\nreplace verifsim => /verif/sim\n' > $S/go.mod; cp /verif/sim/go.sum $S/go.sum
[ -x /verif/bin/rewrite ] || (cd /verif/tools && go build -o /verif/bin/rewrite ./cmd/rewrite) || exit 2
(cd $S/lib && /verif/bin/rewrite . >/dev/null) || { echo "rewrite failed"; exit 1; }
OUT=$(cd $S && go run ./cmd) || { echo "build/run failed"; exit 1; }
echo "$OUT"
[ "$(echo "$OUT" | awk '{print $1}' | sort -u)" = "5010" ] && echo "rewriter selftest: ok" || { echo "rewriter selftest: WRONG RESULT"; exit 1; }
