#!/bin/bash
# Sensitivity self-test: apply every kept seeded change in turn to a scratch worktree of /repo's HEAD (VERIF_REPO points the
# build at it; /repo itself stays untouched, so this can run beside other checks), run the quick check(s) named in its
# meta.json, require exit 1 with a VIOLATION line.  Writes /verif/evidence/sensitivity.json.  Exit 0 iff all are detected.
cd /verif
BUD=${1:-30}
python3 - "$BUD" <<'PY'
import json,os,subprocess,sys,re,time
bud=sys.argv[1]
res=[]; ok=True
for d in sorted(os.listdir('/verif/seeded')):
    mp='/verif/seeded/%s/meta.json'%d
    if not os.path.exists(mp): continue
    m=json.load(open(mp))
    props=re.findall(r'C\d\d',m['detected_by'])
    props=list(dict.fromkeys(props))[:2] or [m['breaks_property']]
    W='/tmp/senswt-%d'%os.getpid()
    subprocess.run(['git','-C','/repo','worktree','remove','--force',W],capture_output=True)
    if subprocess.run(['git','-C','/repo','worktree','add','-q','--detach',W,'HEAD']).returncode!=0:
        print('cannot create worktree'); sys.exit(2)
    det=None; t0=time.time()
    try:
        if subprocess.run(['git','-C',W,'apply','/verif/seeded/%s/patch.diff'%d]).returncode!=0:
            res.append({'id':d,'detected':False,'note':'patch does not apply'}); ok=False; continue
        for p in props:
            env=dict(os.environ,VERIF_BUDGET_S=bud,VERIF_REPO=W,VERIF_EVIDENCE_DIR='/dev/shm/mut-evidence',VERIF_REPLAY_DIR='/dev/shm/mut-replays')
            r=subprocess.run(['./check',p,'quick'],capture_output=True,text=True,env=env)
            if r.returncode==1 and 'VIOLATION property=' in r.stdout:
                det=p; break
    finally:
        subprocess.run(['git','-C','/repo','worktree','remove','--force',W],capture_output=True)
    res.append({'id':d,'breaks':m['breaks_property'],'checks_tried':props,'detected_by':det,'detected':det is not None,'wall_s':round(time.time()-t0,1)})
    print(d,'->',det); sys.stdout.flush()
    if det is None: ok=False
json.dump({'tree':subprocess.run(['git','-C','/repo','log','--format=%h','-1'],capture_output=True,text=True).stdout.strip(),'budget_s_per_check':int(bud),'seeded_changes':len(res),'detected':sum(1 for r in res if r['detected']),'results':res},open('/verif/evidence/sensitivity.json','w'),indent=1)
sys.exit(0 if ok else 1)
PY
