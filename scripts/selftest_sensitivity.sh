#!/bin/bash
# Sensitivity self-test: apply every kept seeded change in turn to a scratch worktree of /repo's HEAD (VERIF_REPO points the
# build at it; /repo itself stays untouched, so this can run beside other checks), run the quick check(s) named in its
# meta.json, require exit 1 with a VIOLATION line.  Writes /verif/evidence/sensitivity.json.  Exit 0 iff all are detected.
cd /verif
BUD=${1:-30}
# optional: SHARD=k/n handles every n-th change and writes /dev/shm/sens-k.json; "merge" combines the shards into evidence/sensitivity.json
if [ "$1" = merge ]; then
python3 - <<'PY'
import json,glob,subprocess,sys
res=[]
byid={}
for f in sorted(glob.glob('/dev/shm/sens-*.json')):
    for r in json.load(open(f))['results']: byid[r['id']]=r
res=sorted(byid.values(),key=lambda r:r['id'])
bud=json.load(open(sorted(glob.glob('/dev/shm/sens-*.json'))[0]))['budget_s_per_check']
ok=all(r['detected'] is not False for r in res)
json.dump({'tree':subprocess.run(['git','-C','/repo','log','--format=%h','-1'],capture_output=True,text=True).stdout.strip(),'budget_s_per_check':bud,'seeded_changes':len(res),'detected':sum(1 for r in res if r['detected']),'outside_property':sum(1 for r in res if r['detected'] is None),'not_detected':[r['id'] for r in res if r['detected'] is False],'results':res},open('/verif/evidence/sensitivity.json','w'),indent=1)
print(len(res),'changes,',sum(1 for r in res if r['detected']),'detected; not detected:',[r['id'] for r in res if r['detected'] is False])
sys.exit(0 if ok else 1)
PY
exit $?
fi
python3 - "$BUD" <<'PY'
import json,os,subprocess,sys,re,time
bud=sys.argv[1]
res=[]; ok=True
shard=os.environ.get('SHARD','')
sk,sn=(int(x) for x in shard.split('/')) if shard else (0,1)
outp='/dev/shm/sens-%d.json'%sk if shard else '/verif/evidence/sensitivity.json'
# SAMPLE=n: of the changes of the earlier waves only every n-th is run (the two newest waves always)
sample=int(os.environ.get('SAMPLE','1'))
ids=[d for i,d in enumerate(sorted(os.listdir('/verif/seeded'))) if d.startswith(('w7','w8')) or i%sample==0]
only=os.environ.get('ONLY')  # ONLY=<id>[,<id>...]: re-run just these (writes /dev/shm/sens-9.json; "merge" lets later files win)
if only:
    ids=[d for d in ids if d in only.split(',')] or only.split(','); sk,sn=0,1; outp='/dev/shm/sens-9.json'
for di,d in enumerate(ids):
    if di%sn!=sk: continue
    mp='/verif/seeded/%s/meta.json'%d
    if not os.path.exists(mp): continue
    m=json.load(open(mp))
    if m.get('outside_property'):
        # kept for the record: on inspection the change does not violate the property as stated (see its meta.json)
        res.append({'id':d,'breaks':m['breaks_property'],'detected':None,'note':'outside the property as stated, not expected to be reported'}); continue
    props=re.findall(r'C\d\d',m['detected_by'])
    props=list(dict.fromkeys(props))[:2] or [m['breaks_property']]
    W='/tmp/senswt-%d'%os.getpid()
    subprocess.run(['git','-C','/repo','worktree','remove','--force',W],capture_output=True)
    if subprocess.run(['git','-C','/repo','worktree','add','-q','--detach',W,'HEAD']).returncode!=0:
        print('cannot create worktree'); sys.exit(2)
    det=None; t0=time.time()
    try:
        if subprocess.run(['git','-C',W,'apply','/verif/seeded/%s/patch.diff'%d]).returncode!=0:
            res.append({'id':d,'detected':False,'note':'patch does not apply'}); ok=False; continue
        for p in props:
            env=dict(os.environ,VERIF_BUDGET_S=bud,VERIF_REPO=W,VERIF_EVIDENCE_DIR='/dev/shm/mut-evidence',VERIF_REPLAY_DIR='/dev/shm/mut-replays')
            r=subprocess.run(['./check',p,'quick'],capture_output=True,text=True,env=env)
            if r.returncode==1 and 'VIOLATION property=' in r.stdout:
                det=p; break
    finally:
        subprocess.run(['git','-C','/repo','worktree','remove','--force',W],capture_output=True)
    res.append({'id':d,'breaks':m['breaks_property'],'checks_tried':props,'detected_by':det,'detected':det is not None,'wall_s':round(time.time()-t0,1)})
    print(d,'->',det); sys.stdout.flush()
    if det is None: ok=False
json.dump({'tree':subprocess.run(['git','-C','/repo','log','--format=%h','-1'],capture_output=True,text=True).stdout.strip(),'budget_s_per_check':int(bud),'sample_of_earlier_waves':sample,'seeded_changes':len(res),'detected':sum(1 for r in res if r['detected']),'outside_property':sum(1 for r in res if r['detected'] is None),'results':res},open(outp,'w'),indent=1)
sys.exit(0 if ok else 1)
PY
