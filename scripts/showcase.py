#!/usr/bin/env python3
import sys,json,base64
d=json.load(open(sys.argv[1]))
c=d['case']
def dk(x): return base64.b64decode(x).decode('latin1') if x else ''
def bs(b):
    if b is None: return None
    r={}
    if b.get('ops'): r['ops']=[(o['op']+('*' if o.get('alloc') else ''),dk(o.get('k')),dk(o.get('v'))[:24]) for o in b['ops']]
    if b.get('kids'): r['kids']={k:bs(v) for k,v in b['kids'].items()}
    if b.get('delkids'): r['delkids']=b['delkids']
    return r
print('opts',json.dumps(c['opts'])); print('policy',c['policy'],'atomic',c.get('verifyAtomic'),'flags',sorted(c.get('flags',{})), 'faults',c.get('faults'))
def show(prog,ind=''):
    for i,op in enumerate(prog):
        if op['kind']=='batch': print(ind,i,'batch',bs(op['b']))
        else:
            o={k:v for k,v in op.items() if k not in('o','prog')}
            for k in ('k','k2'):
                if k in o: o[k]=dk(o[k])
            if 'o' in op: o['o']='<opts>'
            if 'prog' in op: o['prog']=[(p['kind'],dk(p.get('k'))) for p in op['prog']]
            print(ind,i,o)
if c.get('drivers'):
    for j,p in enumerate(c['drivers']): print('driver',j); show(p,'  ')
else: show(c.get('prog',[]))
v=d['violation']; print('VIOLATION',v['prop'],v['class'],'op',v['opIdx']); print(v['msg']); print(v.get('detail'))
if v.get('stack'): print(v['stack'][:1500])
