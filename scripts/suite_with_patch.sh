#!/bin/bash
# suite_with_patch.sh <patch.diff>: unedited moss suite in a scratch worktree of /repo HEAD with the patch applied
export GOFLAGS=-mod=mod GOPROXY=off GOSUMDB=off GOTOOLCHAIN=local
W=/tmp/suitewt-$$
git -C /repo worktree add -q --detach $W HEAD || exit 2
trap "cd /; git -C /repo worktree remove --force $W" EXIT
cd $W && git apply "$1" || exit 2
go test -vet=off -count=1 -timeout 25m . > $W/suite.out 2>&1
grep -E "^(--- FAIL|FAIL|ok|panic)" $W/suite.out | head -20
