#!/usr/bin/env python3
import sys, json, collections
runs=0; viol=collections.Counter(); ex={}; steps=0; lim=0; wall=0; nt=0
for l in sys.stdin:
    l=l.strip()
    if not l.startswith('{'): continue
    d=json.loads(l)
    if d.get('err'): print("ERR", d['err']); continue
    o=d['outcome']; runs+=1; steps+=o['steps']; wall+=d['wallUS']
    if o.get('stepLimit'): lim+=1
    if o.get('nonTrivial'): nt+=1
    v=o.get('violation')
    if v:
        key=(v['prop'],v['class'],(v.get('detail') or {}).get('symptom'))
        viol[key]+=1
        ex.setdefault(key,(d['index'],v['msg'][:300],d.get('replay')))
print(f"runs={runs} steps={steps} stepLimit={lim} nontrivial={nt} wall={wall/1e6:.1f}s")
for k,c in viol.most_common():
    print(c,k,ex[k])
