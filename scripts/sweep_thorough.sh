#!/bin/bash
# background sweep: thorough tier of every property for a given seed; results under $1
OUT=${1:-/dev/shm/verif-sweep}; SEED=${2:-2}; BUD=${3:-600}
mkdir -p $OUT/evidence $OUT/replays
for p in C01 C02 C03 C04 C05 C06 C07 C08 C09 C10 C11 C12 C13 C15 C16 C17 C18 C19 C20; do
  VERIF_SEED=$SEED VERIF_BUDGET_S=$BUD VERIF_WORKERS=${VERIF_WORKERS:-6} VERIF_EVIDENCE_DIR=$OUT/evidence VERIF_REPLAY_DIR=$OUT/replays /verif/check $p thorough > $OUT/$p.log 2>&1
  echo "$p exit=$? $(grep -E '^check: [0-9]' $OUT/$p.log)"
done
