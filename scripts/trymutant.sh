#!/bin/bash
# trymutant.sh <patch.diff> <budget_s> <prop> [<prop>...] : apply a seeded change to /repo, run the quick checks, revert.
P=$1; BUD=$2; shift 2
cd /repo && git status --short | grep -q . && { echo "repo not clean"; exit 2; }
git -C /repo apply "$P" || { echo "patch does not apply"; exit 2; }
trap 'git -C /repo checkout -- . ' EXIT
(cd /repo && GOFLAGS=-mod=mod GOPROXY=off go build ./... ) || { echo "does not build"; exit 2; }
for prop in "$@"; do
  out=$(cd /verif && VERIF_EVIDENCE_DIR=/dev/shm/mut-evidence VERIF_REPLAY_DIR=/dev/shm/mut-replays VERIF_BUDGET_S=$BUD ./check $prop quick 2>&1); rc=$?
  echo "== $prop exit=$rc"; echo "$out" | grep -E "VIOLATION|class=|KNOWN|^check: [0-9]" | head -6
done
