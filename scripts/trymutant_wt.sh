#!/bin/bash
# trymutant_wt.sh <patch.diff> <budget_s> <prop>...: like trymutant.sh but in a scratch worktree of /repo HEAD (VERIF_REPO), leaving /repo alone
P=$1; BUD=$2; shift 2
W=/tmp/trywt-$$
git -C /repo worktree add -q --detach $W HEAD || exit 2
trap 'git -C /repo worktree remove --force '$W EXIT
git -C $W apply "$P" || { echo "patch does not apply"; exit 2; }
(cd $W && GOFLAGS=-mod=mod GOPROXY=off go build ./... ) || { echo "does not build"; exit 2; }
for prop in "$@"; do
  out=$(cd /verif && VERIF_REPO=$W VERIF_EVIDENCE_DIR=/dev/shm/mut-evidence VERIF_REPLAY_DIR=/dev/shm/mut-replays VERIF_BUDGET_S=$BUD ./check $prop quick 2>&1); rc=$?
  echo "== $prop exit=$rc"; echo "$out" | grep -E "VIOLATION|class=|KNOWN|^check: [0-9]" | head -5
done
