#!/bin/bash
# wave_intake.sh <wave> <P> <i> [props...]: confirm sub-agent deliverable /tmp/w<wave>/out-<P>/m<i> (seed_verify.sh), then run the named checks against it
WV=$1; P=$2; I=$3; shift 3
ID=w${WV}${P}m$I; D=/tmp/w$WV/out-$P/m$I
[ -f $D/patch.diff ] && [ -f $D/demo_test.go ] || { echo "$ID: deliverable missing"; exit 2; }
[ "$P" = C17 ] && export DEMOFLAGS=-race
/verif/scripts/seed_verify.sh $ID $D/patch.diff $D/demo_test.go
cp $D/README.md /verif/seeded/$ID/README.agent.md 2>/dev/null
[ $# -gt 0 ] && /verif/scripts/trymutant_wt.sh /verif/seeded/$ID/patch.diff ${BUD:-40} "$@"
