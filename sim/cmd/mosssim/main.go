package main

import (
	"fmt"

	"github.com/couchbase/moss"
	"verifsim/simrt"
)

func main() {
	r := simrt.Run(simrt.Config{Seed: 1, Policy: simrt.Policy{Kind: "uniform"}}, func() {
		c, err := moss.NewCollection(moss.CollectionOptions{})
		if err != nil {
			panic(err)
		}
		c.Start()
		for i := 0; i < 5; i++ {
			b, _ := c.NewBatch(0, 0)
			b.Set([]byte(fmt.Sprintf("k%d", i)), []byte("v"))
			c.ExecuteBatch(b, moss.WriteOptions{})
			b.Close()
		}
		ss, _ := c.Snapshot()
		v, _ := ss.Get([]byte("k3"), moss.ReadOptions{})
		fmt.Println("k3 =", string(v))
		ss.Close()
		c.Close()
	})
	fmt.Printf("%+v\n", *r)
}
