// Command mosssim is the simulation worker: it generates and executes cases
// for one property and reports one JSON line per run.
package main

import (
	"encoding/json"
	"flag"
	"fmt"
	"os"
	"path/filepath"
	"runtime/pprof"
	"sort"
	"strings"
	"time"

	"verifsim/harness"
	"verifsim/simrt"
)

type line struct {
	Index   int              `json:"index"`
	Outcome *harness.Outcome `json:"outcome,omitempty"`
	Replay  string           `json:"replay,omitempty"`
	Err     string           `json:"err,omitempty"`
	WallUS  int64            `json:"wallUS"`
	Sample  *harness.Case    `json:"sample,omitempty"`
	Known   string           `json:"known,omitempty"`
}

func main() {
	prop := flag.String("prop", "C01", "property id")
	seed := flag.Uint64("seed", 1, "base seed")
	tier := flag.String("tier", "quick", "quick|thorough")
	start := flag.Int("start", 0, "first run index")
	stride := flag.Int("stride", 1, "index stride")
	count := flag.Int("count", 0, "max runs (0 = until budget)")
	budget := flag.Duration("budget", 10*time.Second, "wall-clock budget")
	outdir := flag.String("outdir", "", "directory for replay files")
	replay := flag.String("replay", "", "replay file to execute")
	maxViol := flag.Int("maxviol", 3, "stop after this many violations")
	dump := flag.Bool("dump", false, "print the generated case and exit")
	minimise := flag.String("minimise", "", "replay file to minimise")
	minout := flag.String("minout", "", "where to write the minimised replay file")
	real := flag.Bool("real", false, "real-goroutine mode (binary must be linked against unrewritten moss)")
	flag.Parse()
	harness.RealMode = *real
	if pf := os.Getenv("VERIF_CPUPROFILE"); pf != "" {
		f, _ := os.Create(pf)
		pprof.StartCPUProfile(f)
		defer pprof.StopCPUProfile()
	}

	simrt.StartWatchdog(30 * time.Second)
	enc := json.NewEncoder(os.Stdout)

	if *replay != "" {
		os.Exit(doReplay(*replay, enc))
	}
	if *minimise != "" {
		os.Exit(doMinimise(*minimise, *minout, *budget))
	}
	known := harness.LoadKnown("/verif/known_findings.json")
	knownHits := map[string]int{}
	deadline := time.Now().Add(*budget)
	if *count == 0 && *replay == "" {
		// enumerations inside a case stop shortly after the budget, too
		harness.Deadline = deadline.Add(3 * time.Second)
	}
	viol := 0
	n := 0
	for i := *start; ; i += *stride {
		if *count > 0 && n >= *count {
			break
		}
		if *count == 0 && time.Now().After(deadline) {
			break
		}
		n++
		c := harness.Gen(*prop, *seed, i, *tier)
		if *dump {
			b, _ := json.MarshalIndent(c, "", " ")
			fmt.Println(string(b))
			return
		}
		t0 := time.Now()
		out, err := harness.RunCase(c)
		l := line{Index: i, WallUS: time.Since(t0).Microseconds()}
		if err != nil {
			l.Err = err.Error()
			enc.Encode(l)
			os.Exit(2)
		}
		l.Outcome = out
		checkRaceLog(out)
		if n <= 2 {
			l.Sample = c
		}
		if out.Violation != nil {
			matched := ""
			for i := range known {
				if known[i].Matches(*prop, out.Violation) {
					matched = known[i].ID
					break
				}
			}
			if matched != "" {
				// a known finding does not end the search; after a few hits the
				// generator stops drawing its trigger
				knownHits[matched]++
				l.Known = matched
				if knownHits[matched] >= 4 && os.Getenv("VERIF_AVOID_KNOWN") != "" {
					for i := range known {
						if known[i].ID == matched {
							for key, want := range known[i].Trigger {
								if want == "true" {
									harness.AvoidTriggers[key] = true
								}
							}
						}
					}
				}
			} else {
				viol++
				if *outdir != "" {
					l.Replay = writeReplay(*outdir, c, out)
				}
			}
		}
		enc.Encode(l)
		if viol >= *maxViol {
			break
		}
	}
}

// ReplayFile is the on-disk replay format.
type ReplayFile struct {
	Case      *harness.Case      `json:"case"`
	Violation *harness.Violation `json:"violation"`
	TraceHash uint64             `json:"traceHash"`
	Note      string             `json:"note,omitempty"`
}

func writeReplay(dir string, c *harness.Case, out *harness.Outcome) string {
	os.MkdirAll(dir, 0755)
	if out.ReplayCase != nil {
		c = out.ReplayCase
	}
	cc := *c
	cc.Decisions = out.Decisions
	rf := ReplayFile{Case: &cc, Violation: out.Violation, TraceHash: out.TraceHash}
	p := filepath.Join(dir, fmt.Sprintf("%s-%d-%d.json", c.Prop, c.Seed, c.Index))
	b, _ := json.MarshalIndent(rf, "", " ")
	os.WriteFile(p, b, 0644)
	return p
}

func doReplay(path string, enc *json.Encoder) int {
	b, err := os.ReadFile(path)
	if err != nil {
		fmt.Fprintln(os.Stderr, err)
		return 2
	}
	var rf ReplayFile
	if err := json.Unmarshal(b, &rf); err != nil {
		fmt.Fprintln(os.Stderr, err)
		return 2
	}
	out, err := harness.RunCase(rf.Case)
	if err != nil {
		fmt.Fprintln(os.Stderr, err)
		return 2
	}
	checkRaceLog(out)
	enc.Encode(line{Index: rf.Case.Index, Outcome: out})
	if out.Violation != nil {
		fmt.Printf("VIOLATION property=%s replay=%s class=%s\n", out.Violation.Prop, path, out.Violation.Class)
		if rf.Violation != nil && (rf.Violation.Class != out.Violation.Class || rf.Violation.Prop != out.Violation.Prop) {
			fmt.Printf("note: recorded violation was %s/%s\n", rf.Violation.Prop, rf.Violation.Class)
		}
		return 1
	}
	return 0
}

func doMinimise(path, outPath string, budget time.Duration) int {
	b, err := os.ReadFile(path)
	if err != nil {
		fmt.Fprintln(os.Stderr, err)
		return 2
	}
	var rf ReplayFile
	if err := json.Unmarshal(b, &rf); err != nil || rf.Violation == nil {
		fmt.Fprintln(os.Stderr, "bad replay file", err)
		return 2
	}
	best, out, tries := harness.Minimise(rf.Case, rf.Violation, budget)
	if out == nil {
		fmt.Fprintf(os.Stderr, "minimise: violation does not reproduce without its decision log (%d tries)\n", tries)
		return 3
	}
	note := fmt.Sprintf("minimised from %s in %d candidate runs", filepath.Base(path), tries)
	if best.QuietTail {
		// the schedule was cut down to a prefix of recorded decisions followed by a quiet tail
		note += fmt.Sprintf("; schedule: %d recorded decisions, then quiet tail (run took %d decisions)", len(best.Decisions), len(out.Decisions))
	} else {
		best.Decisions = out.Decisions
	}
	nrf := ReplayFile{Case: best, Violation: out.Violation, TraceHash: out.TraceHash, Note: note}
	nb, _ := json.MarshalIndent(nrf, "", " ")
	if err := os.WriteFile(outPath, nb, 0644); err != nil {
		fmt.Fprintln(os.Stderr, err)
		return 2
	}
	fmt.Printf("minimised: %d candidate runs\n", tries)
	return 0
}

var raceOff int64

// checkRaceLog turns new race-detector reports (GORACE log_path) whose racing
// access is inside package moss into a C17 violation.
func checkRaceLog(out *harness.Outcome) {
	base := os.Getenv("VERIF_RACELOG")
	if base == "" {
		return
	}
	path := fmt.Sprintf("%s.%d", base, os.Getpid())
	b, err := os.ReadFile(path)
	if err != nil || int64(len(b)) <= raceOff {
		return
	}
	txt := string(b[raceOff:])
	raceOff = int64(len(b))
	for _, rep := range strings.Split(txt, "==================") {
		if !strings.Contains(rep, "DATA RACE") {
			continue
		}
		out.RaceReports++
		var tops []string
		lines := strings.Split(rep, "\n")
		for i, ln := range lines {
			t := strings.TrimSpace(ln)
			if (strings.HasPrefix(t, "Write at") || strings.HasPrefix(t, "Read at") || strings.HasPrefix(t, "Previous write at") ||
				strings.HasPrefix(t, "Previous read at") || strings.HasPrefix(t, "Atomic") || strings.HasPrefix(t, "Previous atomic")) && i+1 < len(lines) {
				tops = append(tops, strings.TrimSpace(lines[i+1]))
			}
		}
		inMoss := false
		for _, f := range tops {
			if strings.HasPrefix(f, "github.com/couchbase/moss.") {
				inMoss = true
			}
		}
		if !inMoss || out.Violation != nil {
			continue
		}
		sort.Strings(tops)
		if len(rep) > 6000 {
			rep = rep[:6000]
		}
		out.Violation = &harness.Violation{Prop: "C17", Class: "data-race", OpIdx: 0,
			Msg:    "Go race detector: " + strings.Join(tops, "  vs  "),
			Detail: map[string]string{"symptom": strings.Join(tops, " vs ")}, Stack: rep}
	}
}
