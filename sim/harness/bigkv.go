package harness

import (
	"bytes"
	"fmt"
	"syscall"

	"github.com/couchbase/moss"
	"verifsim/simrt"
)

// Boundary-length keys and values (C19): a key of exactly the documented
// maximum (2^24-1 bytes) and values up to 2^28-1 bytes travel through the whole
// data path.  They are kept out of the reference model (its per-batch copies
// and canonical texts would cost gigabytes): every such entry is written in a
// batch together with a small marker key that *is* in the model, and is judged
// against that marker - wherever the marker is visible the entry must be there
// bit-exactly, wherever it is not the entry must be absent.  Readers of whole
// snapshots (dumpSnapshot / equalContent) skip keys of bigKeyMin bytes or more.
const (
	bigKeyMin    = 1 << 20
	maxKeyLength = 1<<24 - 1
	maxValLength = 1<<28 - 1
)

type bigRec struct {
	key, val []byte
	marker   string
}

var bigKeyCache [4][]byte

func bigKey(pattern int) []byte {
	pattern %= 4
	if bigKeyCache[pattern] != nil {
		return bigKeyCache[pattern]
	}
	k := make([]byte, maxKeyLength)
	fill := func(unit []byte, from int) {
		n := copy(k[from:], unit)
		for n < len(k)-from {
			n += copy(k[from+n:], k[from:from+n])
		}
	}
	switch pattern {
	case 0:
		fill([]byte{0xff}, 0)
	case 1:
		// all zero: sorts right after the short all-zero keys
	case 2:
		fill([]byte("0m1o2s3s4p5s"), 0)
	case 3:
		k[0] = 'a'
		unit := make([]byte, 251)
		for i := range unit {
			unit[i] = byte(i)
		}
		fill(unit, 1)
	}
	bigKeyCache[pattern] = k
	return k
}

var bigValCache [3][]byte

func bigVal(kind int) []byte {
	if kind >= 0 && kind < 3 && bigValCache[kind] != nil {
		return bigValCache[kind]
	}
	v := bigVal1(kind)
	if kind >= 0 && kind < 3 {
		bigValCache[kind] = v
	}
	return v
}

func bigVal1(kind int) []byte {
	switch kind {
	case 1:
		v := make([]byte, 1<<20) // a page multiple
		for i := range v {
			v[i] = byte(i % 253)
		}
		return v
	case 2:
		v, err := syscall.Mmap(-1, 0, 1<<28, syscall.PROT_READ|syscall.PROT_WRITE, syscall.MAP_ANON|syscall.MAP_PRIVATE)
		if err != nil {
			v = make([]byte, 1<<28)
		}
		v = v[:maxValLength]
		v[0], v[len(v)/2], v[len(v)-1] = 1, 3, 2
		return v
	}
	return []byte("edge")
}

func hasBig(prog []Op) bool {
	for _, op := range prog {
		if op.Kind == "bigkv" {
			return true
		}
	}
	return false
}

// doBigKV: op.M = key pattern, op.N = value kind, op.Flag = Alloc-built.
func (e *Exec) doBigKV(op Op) {
	if !e.collOpen || e.opts.ReadOnly {
		return
	}
	for _, r := range e.bigs {
		if r.marker == fmt.Sprintf("\x01big/%d", op.M%4) {
			return // one entry per pattern
		}
	}
	rec := &bigRec{key: bigKey(op.M), val: bigVal(op.N), marker: fmt.Sprintf("\x01big/%d", op.M%4)}
	bs := &BatchSpec{Ops: []KV{{Op: "set", K: []byte(rec.marker), V: []byte(fmt.Sprintf("m%d", e.hist.N()+1))}}}
	nOps, tot := batchHints(bs)
	b, err := e.coll.NewBatch(nOps+1, tot+len(rec.key)+len(rec.val))
	if err != nil {
		e.fail("batch-error", "NewBatch: %v", err)
	}
	if op.Flag {
		buf, aerr := b.Alloc(len(rec.key) + len(rec.val))
		if aerr != nil {
			e.fail("batch-error", "Alloc(%d) within the hinted size: %v", len(rec.key)+len(rec.val), aerr)
		}
		copy(buf, rec.key)
		copy(buf[len(rec.key):], rec.val)
		err = b.AllocSet(buf[:len(rec.key)], buf[len(rec.key):])
	} else {
		err = b.Set(rec.key, rec.val)
	}
	if err != nil {
		e.failD("limit-not-enforced", map[string]string{"symptom": "within-limit-rejected"},
			"Set of a key of 2^24-1 bytes with a value of %d bytes (both within the documented limits): %v", len(rec.val), err)
	}
	e.fillBatch(b, bs, true)
	e.hist.ApplyBatch(bs)
	e.drained = false
	e.bigs = append(e.bigs, rec)
	if err := e.coll.ExecuteBatch(b, moss.WriteOptions{}); err != nil {
		e.fail("batch-error", "ExecuteBatch: %v", err)
	}
	b.Close()
	e.noteKeys(bs)
	simrt.Note("batch", uint64(e.hist.N()))
	e.probe("bigkv-written")
	if len(rec.val) == maxValLength {
		e.probe("bigkv-max-value")
	}
}

// checkBig judges the boundary-length entries of a snapshot against their
// markers.
func (e *Exec) checkBig(ss moss.Snapshot, where string) {
	if ss == nil {
		return
	}
	for _, r := range e.bigs {
		mv, err := ss.Get([]byte(r.marker), moss.ReadOptions{})
		if err != nil {
			e.fail("snapshot-error", "Get: %v", err)
		}
		present := mv != nil
		for _, nocopy := range []bool{true, false} {
			got, err := ss.Get(r.key, moss.ReadOptions{NoCopyValue: nocopy})
			if err != nil {
				e.fail("snapshot-error", "Get of the 2^24-1 byte key: %v", err)
			}
			if m := bigCmp(present, got, r.val); m != "" {
				e.failD("content-mismatch", map[string]string{"symptom": "boundary-length", "where": where},
					"%s: Get(nocopy=%v) of the 2^24-1 byte key %s", where, nocopy, m)
			}
		}
		it, err := ss.StartIterator(r.key, nil, moss.IteratorOptions{})
		if err != nil {
			e.fail("snapshot-error", "StartIterator at the 2^24-1 byte key: %v", err)
		}
		k, v, err := it.Current()
		switch {
		case present && (err != nil || !bytes.Equal(k, r.key)):
			it.Close()
			e.failD("content-mismatch", map[string]string{"symptom": "boundary-length", "where": where},
				"%s: an iterator started at the 2^24-1 byte key does not yield it (err=%v, key of %d bytes)", where, err, len(k))
		case present:
			if m := bigCmp(true, v, r.val); m != "" {
				it.Close()
				e.failD("content-mismatch", map[string]string{"symptom": "boundary-length", "where": where},
					"%s: iterator value of the 2^24-1 byte key %s", where, m)
			}
		case err == nil && bytes.Equal(k, r.key):
			it.Close()
			e.failD("content-mismatch", map[string]string{"symptom": "boundary-length", "where": where},
				"%s: the 2^24-1 byte key is iterated although the rest of its batch is not visible", where)
		}
		it.Close()
		e.out.Checks++
		if present {
			e.probe("bigkv-seen-" + where)
		}
	}
}

func bigCmp(present bool, got, want []byte) string {
	switch {
	case !present && got != nil:
		return fmt.Sprintf("returns %d bytes although the rest of its batch is not visible", len(got))
	case present && got == nil:
		return "returns nil although the rest of its batch is visible"
	case present && !bytes.Equal(got, want):
		i := 0
		for i < len(got) && i < len(want) && got[i] == want[i] {
			i++
		}
		return fmt.Sprintf("returns %d bytes, written were %d; first difference at offset %d", len(got), len(want), i)
	}
	return ""
}
