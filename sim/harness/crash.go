package harness

import (
	"crypto/sha1"
	"fmt"
	"os"
	"path/filepath"
	"sort"
	"strings"
	"time"

	"github.com/couchbase/moss"
	"verifsim/simrt"
)

const pageSize = 4096

// diskState is the content of the simulated directory at some trace position.
type diskState struct {
	files map[string][]byte
}

func newDisk() *diskState { return &diskState{files: map[string][]byte{}} }

func (d *diskState) clone() *diskState {
	c := newDisk()
	for k, v := range d.files {
		c.files[k] = append([]byte(nil), v...)
	}
	return c
}

func (d *diskState) write(name string, off int64, data []byte) {
	f, ok := d.files[name]
	if !ok {
		return // write to an unlinked file: invisible in the directory
	}
	end := int(off) + len(data)
	if end > len(f) {
		f = append(f, make([]byte, end-len(f))...)
	}
	copy(f[off:], data)
	d.files[name] = f
}

func (d *diskState) apply(op *FileOp) {
	switch op.Kind {
	case "OPEN":
		if op.Err != "" {
			return
		}
		if op.Flags&os.O_CREATE != 0 {
			if _, ok := d.files[op.File]; !ok {
				d.files[op.File] = []byte{}
			}
		}
		if op.Flags&os.O_TRUNC != 0 {
			if _, ok := d.files[op.File]; ok {
				d.files[op.File] = []byte{}
			}
		}
	case "WRITE":
		if op.Len > 0 {
			d.write(op.File, op.Off, op.Data[:op.Len])
		}
	case "TRUNCATE":
		if f, ok := d.files[op.File]; ok {
			if int(op.Off) <= len(f) {
				d.files[op.File] = f[:op.Off]
			} else {
				d.files[op.File] = append(f, make([]byte, int(op.Off)-len(f))...)
			}
		}
	case "REMOVE":
		if op.Err == "" {
			delete(d.files, op.File)
		}
	}
}

func (d *diskState) hash() string {
	h := sha1.New()
	names := make([]string, 0, len(d.files))
	for n := range d.files {
		names = append(names, n)
	}
	sort.Strings(names)
	for _, n := range names {
		fmt.Fprintf(h, "%s:%d:", n, len(d.files[n]))
		h.Write(d.files[n])
	}
	return string(h.Sum(nil))
}

func (d *diskState) materialise(dir string) error {
	os.RemoveAll(dir)
	if err := os.MkdirAll(dir, 0700); err != nil {
		return err
	}
	for n, b := range d.files {
		if err := os.WriteFile(filepath.Join(dir, n), b, 0600); err != nil {
			return err
		}
	}
	return nil
}

// unsynced bookkeeping for the power-loss model: per file the writes since its
// last SYNC, as page-block updates.
type pendingWrite struct {
	off  int64
	data []byte
}

// syncedImage is the smallest image the power-loss model allows after the
// given trace: per file what its last successful SYNC (or TRUNCATE) made
// durable, directory operations applied in order.
func syncedImage(trace []FileOp) *diskState {
	cur := newDisk()
	synced := newDisk()
	for i := range trace {
		op := &trace[i]
		if op.Kind == "MARK" {
			continue
		}
		cur.apply(op)
		switch op.Kind {
		case "OPEN":
			if op.Err == "" && op.Flags&(os.O_CREATE|os.O_TRUNC) != 0 {
				if _, ok := synced.files[op.File]; !ok || op.Flags&os.O_TRUNC != 0 {
					synced.files[op.File] = []byte{}
				}
			}
		case "SYNC":
			if op.Err == "" {
				if f, ok := cur.files[op.File]; ok {
					synced.files[op.File] = append([]byte(nil), f...)
				}
			}
		case "REMOVE":
			if op.Err == "" {
				delete(synced.files, op.File)
			}
		case "TRUNCATE":
			if f, ok := cur.files[op.File]; ok {
				synced.files[op.File] = append([]byte(nil), f...)
			}
		}
	}
	return synced
}

type imageSpec struct {
	disk *diskState
	desc string
}

// crashEnumerate walks every crash point of the recorded trace and checks the
// images the crash model allows there (C05).
func (e *Exec) crashEnumerate(tier string) {
	trace := e.fs.Trace
	syncing := true
	// NoSync may change at reopen; evaluate per MARK("open") using the options in force
	// (we keep it simple and sound: the power-loss model and clause (3) are used
	// only if no part of the run had NoSync set)
	if e.c.Opts.NoSync {
		syncing = false
	}
	for _, op := range e.c.Prog {
		if op.O != nil && op.O.NoSync {
			syncing = false
		}
	}
	maxM := 6
	if tier == "thorough" {
		maxM = 24
	}
	r := simrt.NewRand(simrt.Mix(e.c.SchedSeed, 0xc4a5))
	cur := newDisk()
	synced := newDisk()                 // per-file durable content (M model)
	pend := map[string][]pendingWrite{} // per-file writes since last sync
	seen := map[string]bool{}
	lastMarkJ := -1
	lastMarkSynced := false
	check := func(img *diskState, p int, desc string) {
		h := img.hash()
		if seen[h] {
			return
		}
		seen[h] = true
		e.out.Images++
		need := -1
		if syncing && lastMarkSynced {
			need = lastMarkJ
		}
		pc := 0.03
		if strings.HasPrefix(desc, "K:torn") {
			pc = 0.08 // a torn write followed by more writes and a second crash
		}
		if v := e.checkImage(img, need, r.Chance(pc)); v != "" {
			op := "end of trace"
			if p < len(trace) {
				op = trace[p].String()
			}
			e.failD("crash-"+vclass(v), map[string]string{"symptom": vclass(v), "crashPoint": fmt.Sprint(p), "image": desc},
				"crash before file-op #%d (%s), image %q: %s", p, op, desc, v)
		}
	}
	for p := 0; p <= len(trace); p++ {
		if !Deadline.IsZero() && time.Now().After(Deadline) {
			e.probe("crash-enum-cut-by-budget")
			break
		}
		if p < len(trace) && trace[p].Kind == "MARK" {
			if trace[p].Mark == "round" {
				lastMarkJ, lastMarkSynced = trace[p].J, trace[p].Synced
			}
			continue
		}
		if p < len(trace) {
			k := trace[p].Kind
			if k == "STAT" || k == "READ" || k == "READDIR" || k == "CLOSE" {
				cur.apply(&trace[p])
				continue // no state change: same images as the previous point
			}
		}
		e.out.CrashPoints++
		// K model: everything before p, then the op at p torn
		check(cur, p, "K:prefix")
		if p < len(trace) && trace[p].Kind == "WRITE" && trace[p].Len > 1 {
			op := &trace[p]
			L := op.Len
			cuts := []int{1, 21, 22, 23, L / 2, L - 1}
			for b := (op.Off/pageSize + 1) * pageSize; b < op.Off+int64(L); b += pageSize {
				c := int(b - op.Off)
				cuts = append(cuts, c-1, c, c+1)
			}
			cuts = append(cuts, 1+r.Intn(L-1))
			done := map[int]bool{}
			n := 0
			for _, t := range cuts {
				if t <= 0 || t >= L || done[t] {
					continue
				}
				done[t] = true
				img := cur.clone()
				img.write(op.File, op.Off, op.Data[:t])
				check(img, p, fmt.Sprintf("K:torn@%d/%d", t, L))
				n++
				if n >= 8 && tier != "thorough" {
					break
				}
			}
		}
		// M model: per file, synced content + any subset of unsynced page blocks
		if syncing {
			e.powerLossImages(cur, synced, pend, p, maxM, r, check)
		}
		if p == len(trace) {
			break
		}
		// advance
		op := &trace[p]
		cur.apply(op)
		switch op.Kind {
		case "OPEN":
			if op.Err == "" && op.Flags&(os.O_CREATE|os.O_TRUNC) != 0 {
				// directory operations are durable at once; content starts empty
				if _, ok := synced.files[op.File]; !ok || op.Flags&os.O_TRUNC != 0 {
					synced.files[op.File] = []byte{}
					delete(pend, op.File)
				}
			}
		case "WRITE":
			if op.Len > 0 {
				pend[op.File] = append(pend[op.File], pendingWrite{off: op.Off, data: op.Data[:op.Len]})
			}
		case "SYNC":
			if op.Err == "" {
				if f, ok := cur.files[op.File]; ok {
					synced.files[op.File] = append([]byte(nil), f...)
				}
				delete(pend, op.File)
			}
		case "REMOVE":
			if op.Err == "" {
				delete(synced.files, op.File)
				delete(pend, op.File)
			}
		case "TRUNCATE":
			if f, ok := cur.files[op.File]; ok {
				synced.files[op.File] = append([]byte(nil), f...)
				delete(pend, op.File)
			}
		}
	}
}

func vclass(v string) string {
	switch {
	case len(v) >= 4 && v[:4] == "open":
		return "open-fails"
	case len(v) >= 3 && v[:3] == "not":
		return "not-prefix"
	case len(v) >= 4 && v[:4] == "lost":
		return "lost-synced"
	case len(v) >= 5 && v[:5] == "fault":
		return "fault"
	}
	return "unusable"
}

type blockUpd struct {
	file string
	blk  int64
}

// powerLossImages builds images in which un-synced page blocks are kept or lost.
func (e *Exec) powerLossImages(cur, synced *diskState, pend map[string][]pendingWrite, p, maxM int, r *simrt.Rand,
	check func(*diskState, int, string)) {
	// the set of dirty blocks
	var blocks []blockUpd
	seenB := map[blockUpd]bool{}
	names := make([]string, 0, len(pend))
	for n := range pend {
		names = append(names, n)
	}
	sort.Strings(names)
	for _, n := range names {
		for _, w := range pend[n] {
			for b := w.off / pageSize; b <= (w.off+int64(len(w.data))-1)/pageSize; b++ {
				k := blockUpd{n, b}
				if !seenB[k] {
					seenB[k] = true
					blocks = append(blocks, k)
				}
			}
		}
	}
	if len(blocks) == 0 {
		return
	}
	build := func(keep map[blockUpd]bool, maxLen bool) *diskState {
		img := newDisk()
		for n, f := range cur.files {
			s, ok := synced.files[n]
			if !ok {
				s = []byte{}
			}
			if _, dirty := pend[n]; !dirty {
				img.files[n] = append([]byte(nil), f...)
				continue
			}
			out := append([]byte(nil), s...)
			hi := len(out)
			for _, k := range blocks {
				if k.file != n || !keep[k] {
					continue
				}
				lo := int(k.blk * pageSize)
				end := lo + pageSize
				if end > len(f) {
					end = len(f)
				}
				if lo >= end {
					continue
				}
				if end > len(out) {
					out = append(out, make([]byte, end-len(out))...)
				}
				copy(out[lo:end], f[lo:end])
				if end > hi {
					hi = end
				}
			}
			if maxLen && len(f) > len(out) {
				out = append(out, make([]byte, len(f)-len(out))...)
			}
			img.files[n] = out
		}
		return img
	}
	n := 0
	emit := func(keep map[blockUpd]bool, maxLen bool, desc string) {
		if n >= maxM {
			return
		}
		n++
		check(build(keep, maxLen), p, desc)
	}
	none := map[blockUpd]bool{}
	emit(none, false, "M:none")
	emit(none, true, "M:none,maxlen")
	for i, b := range blocks {
		if i >= 3 {
			break
		}
		only := map[blockUpd]bool{b: true}
		emit(only, false, fmt.Sprintf("M:only-%s#%d", b.file, b.blk))
	}
	for i := len(blocks) - 1; i >= 0 && i >= len(blocks)-3; i-- {
		all := map[blockUpd]bool{}
		for _, b := range blocks {
			all[b] = true
		}
		delete(all, blocks[i])
		emit(all, true, fmt.Sprintf("M:all-but-%s#%d", blocks[i].file, blocks[i].blk))
	}
	for n < maxM {
		sub := map[blockUpd]bool{}
		for _, b := range blocks {
			if r.Chance(0.5) {
				sub[b] = true
			}
		}
		emit(sub, r.Chance(0.5), "M:random-subset")
	}
}

// checkImage opens an image with ordinary store options in a small simulation
// of its own and judges it.  need >= 0: some matching prefix must be >= need.
func (e *Exec) checkImage(img *diskState, need int, cont bool) (verdict string) {
	dir := e.fs.Dir + "-img"
	if err := img.materialise(dir); err != nil {
		panic(err)
	}
	defer os.RemoveAll(dir)
	res := simrt.Run(simrt.Config{Seed: 1, Policy: simrt.Policy{Kind: "uniform", Sticky: 0.98}, MaxSteps: 100000}, func() {
		verdict = e.imageVerdict(dir, need, cont, img)
	})
	if verdict == "" && res.Violation != nil {
		verdict = fmt.Sprintf("fault/%s while opening or reading the image: %s", res.Violation.Class, res.Violation.Msg)
	}
	return verdict
}

// imageVerdict opens the directory with ordinary options in the current task
// and judges its content ("" = fine).
func (e *Exec) imageVerdict(dir string, need int, cont bool, img *diskState) (verdict string) {
	o := e.c.Opts
	o.ReadOnly = false
	o.MergerIdleRunTimeoutMS = 0
	sub := &Exec{c: e.c, hist: e.hist, out: &Outcome{Faults: map[string]int{}, Probes: map[string]int{}}, probes: e.probes,
		shapes: map[string]bool{}, opts: o, noRoundChecks: true}
	sub.fs = NewFS(dir, nil)
	sub.fs.Quiet = true
	registerFS(sub.fs)
	defer unregisterFS(sub.fs)
	defer func() {
		if r := recover(); r != nil {
			if _, ok := r.(abortRun); ok {
				return
			}
			verdict = fmt.Sprintf("fault/panic while reading the reopened store: %v", r)
		}
	}()
	so, spo := sub.storeOptions(o)
	st, coll, err := moss.OpenStoreCollection(dir, so, spo)
	if err != nil {
		return fmt.Sprintf("open fails: %v", err)
	}
	closeAll := func() {
		coll.Close()
		st.Close()
		simrt.Quiesce(20000, 0)
	}
	ss, err := coll.Snapshot()
	if err != nil {
		closeAll()
		return fmt.Sprintf("open: Snapshot fails: %v", err)
	}
	content, err := dumpSnapshot(ss)
	if err != nil {
		ss.Close()
		closeAll()
		return fmt.Sprintf("not readable: %v", err)
	}
	J := e.hist.Match(content)
	if len(J) == 0 {
		ss.Close()
		closeAll()
		return fmt.Sprintf("not a prefix of the executed batches: against the full reference: %s", e.hist.Last().Diff(content, ""))
	}
	if need >= 0 && Advance(need, J) < 0 {
		ss.Close()
		closeAll()
		return fmt.Sprintf("lost synced data: reopened content is prefix %v, but a persistence round had completed with prefix %d", J, need)
	}
	j := J[len(J)-1]
	if m := equalContent(ss, e.hist.Models[j], nil, ""); m != nil {
		ss.Close()
		closeAll()
		return fmt.Sprintf("not consistent: iterates as prefix %d but point reads disagree: %s", j, m)
	}
	ss.Close()
	if !cont {
		closeAll()
		return ""
	}
	// usable: more batches (their file operations recorded), drain, close,
	// reopen - and a second crash at sampled points of that continuation
	sub.fs.Quiet = false
	sub.fs.Trace = nil
	after := []*Node{content.Clone()}
	nb := 1 + simrt.Choose(2, "cont-batches")
	for i := 0; i < nb; i++ {
		b, _ := coll.NewBatch(0, 0)
		spec := &BatchSpec{}
		for k := 0; k <= i; k++ {
			kv := KV{Op: "set", K: []byte(fmt.Sprintf("zz-after-crash-%d", k)), V: bytesRepeat(byte('0'+i), 10+4000*k)}
			spec.Ops = append(spec.Ops, kv)
			b.Set(kv.K, kv.V)
		}
		if err := coll.ExecuteBatch(b, moss.WriteOptions{}); err != nil {
			closeAll()
			return fmt.Sprintf("unusable after recovery: ExecuteBatch: %v", err)
		}
		b.Close()
		n := after[len(after)-1].Clone()
		n.Apply(spec)
		after = append(after, n)
		simrt.Quiesce(50000, 0)
	}
	closeAll()
	cont2 := append([]FileOp{}, sub.fs.Trace...)
	sub.fs.Quiet = true
	allowed := func(c *Node) bool {
		cc := c.Canon()
		for _, n := range after {
			if n.Canon() == cc {
				return true
			}
		}
		return false
	}
	readDir := func(d string) (*Node, string) {
		st2, coll2, err := moss.OpenStoreCollection(d, so, spo)
		if err != nil {
			return nil, fmt.Sprintf("open fails: %v", err)
		}
		defer func() {
			coll2.Close()
			st2.Close()
			simrt.Quiesce(20000, 0)
		}()
		ss2, err := coll2.Snapshot()
		if err != nil {
			return nil, fmt.Sprintf("Snapshot fails: %v", err)
		}
		defer ss2.Close()
		c2, err := dumpSnapshot(ss2)
		if err != nil {
			return nil, fmt.Sprintf("not readable: %v", err)
		}
		return c2, ""
	}
	c2, v := readDir(dir)
	if v != "" {
		return "unusable after recovery: second open: " + v
	}
	if c2.Canon() != after[len(after)-1].Canon() {
		return "unusable after recovery: content after " + fmt.Sprint(nb) + " more batch(es) and a clean reopen is not the recovered content plus those batches: " + after[len(after)-1].Diff(c2, "")
	}
	if img == nil || len(cont2) == 0 {
		return ""
	}
	// second crash: the first image is "the disk"; the continuation's
	// operations up to a point reach it in order, the last write torn
	var pts []int
	for p := range cont2 {
		switch cont2[p].Kind {
		case "WRITE", "SYNC", "OPEN", "REMOVE", "TRUNCATE":
			pts = append(pts, p)
		}
	}
	dir2 := dir + "2"
	defer os.RemoveAll(dir2)
	unreg := func() {}
	for n := 0; n < 4 && len(pts) > 0; n++ {
		p := pts[simrt.Choose(len(pts), "second-crash-point")]
		img2 := img.clone()
		for i := 0; i < p; i++ {
			img2.apply(&cont2[i])
		}
		desc := fmt.Sprintf("prefix of %d continuation ops", p)
		if op := &cont2[p]; op.Kind == "WRITE" && op.Len > 1 && len(op.Data) >= op.Len {
			t := 1 + simrt.Choose(op.Len-1, "second-tear")
			img2.write(op.File, op.Off, op.Data[:t])
			desc += fmt.Sprintf(" + %d/%d bytes of %s", t, op.Len, op.String())
		}
		if err := img2.materialise(dir2); err != nil {
			break
		}
		fs2 := NewFS(dir2, nil)
		fs2.Quiet = true
		registerFS(fs2)
		unreg = func() { unregisterFS(fs2) }
		c3, v := readDir(dir2)
		unreg()
		e.out.Images++
		e.probe("second-crash-image")
		if v != "" {
			return fmt.Sprintf("unusable after recovery: after a second crash (%s) %s", desc, v)
		}
		if !allowed(c3) {
			return fmt.Sprintf("unusable after recovery: after a second crash (%s) the content is neither what the first recovery exposed nor that plus a prefix of the %d batches executed since: %s", desc, nb, after[0].Diff(c3, ""))
		}
	}
	return ""
}

func genCrash(c *Case, r *simrt.Rand, tier string) {
	cfg := propCfg("C04")
	cfg.maxOps = 14
	if tier == "thorough" {
		cfg.maxOps = 30
	}
	cfg.flags = []string{"storeEach", "crash", "history"}
	cfg.histW = 6
	cfg.reopen = 4
	cfg.drainW = 14
	cfg.kids = 0.3
	cfg.partial = 0.3
	cfg.longHist = 0.02
	genSingle(c, r, cfg)
	c.Opts.KeepFiles = false
	c.Flags["tier-"+tier] = true
}
