package harness

import (
	"bytes"
	"fmt"
	"os"
	"path/filepath"
	"runtime"
	"runtime/debug"
	"sort"
	"strings"
	"sync/atomic"
	"syscall"
	"time"

	"github.com/couchbase/moss"
	"verifsim/simrt"
)

type abortRun struct{}

// Exec executes one Case.
type Exec struct {
	c    *Case
	fs   *FS
	hist *History
	out  *Outcome

	store *moss.Store
	coll  moss.Collection
	ll    *mapLL
	opts  Opts

	viol  *Violation
	opIdx int

	lb       int  // lower bound of the prefix the lower level has exposed
	drained  bool // last drain observed lower level == model_n (and nothing since)
	collOpen bool

	probes          map[string]bool
	events          evlog
	handles         []*handle
	copies          []copyRec
	bigs            []*bigRec // boundary-length entries outside the model (C19)
	history         []*Node   // C12: contents per persistence round since the last compaction
	shapes          map[string]bool
	lastCompactions uint64
	lastPartial     uint64
	histCompactions uint64
	histPersists    uint64
	revertedOnce    bool
	lastShape       string

	md *multiState

	mergerStall    int // >0: the next MergerProgress callback is slow by that many scheduling points
	noRoundChecks  bool
	storeSurelyAll bool
	storeMaybeAll  bool

	pendingDurable    []durableCheck
	segmentlessFooter bool // a round left a footer tree without any persisted segment
	deferred          *Violation
}

// touchesChildTree: does the batch create or delete a child collection at any level?
func touchesChildTree(b *BatchSpec) bool {
	return b != nil && (len(b.Kids) > 0 || len(b.DelKids) > 0)
}

func countOps(b *BatchSpec) int {
	if b == nil {
		return 0
	}
	n := len(b.Ops)
	for _, c := range b.Kids {
		n += countOps(c)
	}
	return n
}

func footerHasSegments(f *moss.Footer) bool {
	if len(f.SegmentLocs) > 0 {
		return true
	}
	for _, c := range f.ChildFooters {
		if footerHasSegments(c) {
			return true
		}
	}
	return false
}

type evlog struct {
	persistRounds int
	mergerRounds  int
	errors        []string
	lastRoundBeg  uint64
}

type copyRec struct {
	got  []byte
	want []byte
	key  string
}

var runSeq int64

// RealMode runs cases against unrewritten moss with real goroutines.
var RealMode bool

// RunCase executes c and returns its outcome.  It never panics: harness
// trouble is reported through err.
func RunCase(c *Case) (out *Outcome, err error) {
	if c.Flags["faultEnum"] {
		return RunFaultEnum(c)
	}
	out, _, err = runCaseEx(c)
	return out, err
}

func runCaseEx(c *Case) (out *Outcome, classes []string, err error) {
	e := &Exec{c: c, hist: NewHistory(), out: &Outcome{Case: c, Faults: map[string]int{}, Probes: map[string]int{}},
		probes: map[string]bool{}, shapes: map[string]bool{}, opts: c.Opts}
	mergeRefuseTask, mergeRefuseBg, mergeRefusedBg, oracleDepth = nil, 0, 0, 0
	mergeRefusedHook = func() { e.fs.FaultSeen++ }
	defer func() {
		if out != nil && mergeRefusedBg > 0 {
			out.Probes["background-merge-refused"] += mergeRefusedBg
		}
		mergeRefuseBg = 0
	}()
	dir := fmt.Sprintf("/dev/shm/verif-run-%d-%d", os.Getpid(), atomic.AddInt64(&runSeq, 1))
	os.RemoveAll(dir)
	if err := os.MkdirAll(dir, 0700); err != nil {
		return nil, nil, err
	}
	defer func() {
		os.RemoveAll(dir)
		// side directories (durability images, read-only copies) of runs that
		// were aborted half-way
		if ms, _ := filepath.Glob(dir + "-*"); ms != nil {
			for _, m := range ms {
				os.RemoveAll(m)
			}
		}
	}()
	e.fs = NewFS(dir, c.Faults)
	defer e.fs.Cleanup()
	e.fs.NoData = hasBig(c.Prog) // no crash images in such cases: do not keep copies of 16 MiB writes
	registerFS(e.fs)
	defer unregisterFS(e.fs)

	if c.Flags["leakCheck"] {
		// no collection while descriptors are being counted: a finalizer must
		// not close a leaked *os.File behind the oracle's back
		old := debug.SetGCPercent(-1)
		defer func() {
			debug.SetGCPercent(old)
			runtime.GC()
		}()
	}

	pol := simrt.Policy{AtomicYield: c.Policy.AtomicYield, Kind: c.Policy.Kind, Sticky: c.Policy.Sticky, DriverW: c.Policy.DriverW, BgW: c.Policy.BgW,
		PAdvance: c.Policy.PAdvance, PctD: c.Policy.PctD, Horizon: c.Policy.Horizon}
	cfg := simrt.Config{Seed: c.SchedSeed, Policy: pol, MaxSteps: c.MaxSteps, Replay: c.Decisions, QuietTail: c.QuietTail, LogPath: os.Getenv("VERIF_EVENTLOG")}
	var res *simrt.Result
	if RealMode {
		// differential mode: same program and oracles, real goroutines, no
		// scheduler (the moss copy linked in is not rewritten)
		e.main()
		res = &simrt.Result{}
	} else {
		res = simrt.Run(cfg, e.main)
	}

	if e.viol == nil && res.Violation == nil && c.Flags["crash"] {
		func() {
			defer func() {
				if r := recover(); r != nil {
					if _, ok := r.(abortRun); !ok {
						panic(r)
					}
				}
			}()
			tier := "quick"
			if c.Flags["tier-thorough"] {
				tier = "thorough"
			}
			e.crashEnumerate(tier)
		}()
	}
	o := e.out
	o.Steps, o.Switches, o.SimNanos = res.Steps, res.Switches, res.SimNanos
	o.TraceHash, o.InterHash, o.Tasks, o.Stranded, o.StepLimit = res.TraceHash, res.InterHash, res.Tasks, res.Stranded, res.StepLimit
	o.Decisions = res.Decisions
	o.FileOps = len(e.fs.Trace)
	for k, v := range e.fs.Fired {
		o.Faults[k] += v
	}
	for s := range e.shapes {
		o.Shapes = append(o.Shapes, s)
	}
	sort.Strings(o.Shapes)
	if e.viol == nil && res.Violation == nil && e.deferred != nil {
		e.viol = e.deferred
	}
	if e.viol != nil {
		o.Violation = e.viol
	} else if res.Violation != nil {
		v := res.Violation
		o.Violation = &Violation{Prop: e.attribute(v.Class), Class: v.Class, Msg: v.Msg, OpIdx: e.opIdx, Stack: v.Stack,
			Detail: e.detail(nil)}
	}
	o.NonTrivial = e.nonTrivial()
	o.OnErrors = len(e.events.errors)
	o.LastErrors = lastN(e.events.errors, 2)
	o.PolicyKind = fmt.Sprintf("%s/sticky=%v", c.Policy.Kind, c.Policy.Sticky)
	{
		cc := *c
		cc.Decisions = nil
		cc.SchedSeed = 0
		cc.Index = 0
		o.CaseHash = hashBytes([]byte(jsonStr(cc)))
	}
	return o, e.fs.Eligible, nil
}

// attribute maps a runtime-level violation class to the property it breaks.
func (e *Exec) attribute(class string) string {
	switch class {
	case "deadlock":
		if e.c.Prop == "C17" {
			return "C16"
		}
	}
	return e.c.Prop
}

func (e *Exec) nonTrivial() bool {
	return e.out.Probes["bg-step-between-ops"] > 0 && (e.out.Probes["multi-section-compare"] > 0 || e.fs.FaultSeen > 0 || e.out.Images > 0 || e.out.Probes["concurrent-overlap"] > 0)
}

//go:norace
func (e *Exec) probe(name string) { e.out.Probes[name]++ }

// fail records the first violation and aborts the run.
//
//go:norace
func (e *Exec) fail(class, format string, a ...interface{}) {
	e.failD(class, nil, format, a...)
}

//go:norace
func (e *Exec) failD(class string, extra map[string]string, format string, a ...interface{}) {
	if e.viol == nil {
		e.viol = &Violation{Prop: e.c.Prop, Class: class, Msg: fmt.Sprintf(format, a...), OpIdx: e.opIdx, Detail: e.detail(extra)}
	}
	panic(abortRun{})
}

// detail collects trigger facts of the history so far (known-finding matching).
//
//go:norace
func (e *Exec) detail(extra map[string]string) map[string]string {
	d := map[string]string{
		"backing":        e.opts.Backing,
		"concern":        fmt.Sprint(e.opts.Concern),
		"persistRounds":  fmt.Sprint(e.events.persistRounds),
		"faultsInjected": fmt.Sprint(e.fs.FaultSeen),
		"compactions":    fmt.Sprint(e.lastCompactions),
		"partials":       fmt.Sprint(e.lastPartial),
		"shape":          e.lastShape,
	}
	kids, merges, childOnly, delKid, emptyKey := false, false, false, false, false
	structuralOnly := false
	d["segmentlessFooter"] = fmt.Sprint(e.segmentlessFooter)
	scan := func(ops []Op) {
		for i, op := range ops {
			if i > e.opIdx && e.c.Drivers == nil {
				break
			}
			if op.B == nil {
				if op.Kind == "reopen" {
					d["reopened"] = "true"
				}
				if op.Kind == "revert" {
					d["reverted"] = "true"
				}
				continue
			}
			if len(op.B.Kids) > 0 {
				kids = true
				if len(op.B.Ops) == 0 {
					childOnly = true
				}
			}
			if len(op.B.DelKids) > 0 {
				delKid = true
			}
			if countOps(op.B) == 0 && (len(op.B.Kids) > 0 || len(op.B.DelKids) > 0) {
				structuralOnly = true
			}
			var walk func(b *BatchSpec)
			walk = func(b *BatchSpec) {
				for _, kv := range b.Ops {
					if kv.Op == "merge" {
						merges = true
					}
					if len(kv.K) == 0 {
						emptyKey = true
					}
				}
				for _, c := range b.Kids {
					if c != nil {
						walk(c)
					}
				}
			}
			walk(op.B)
		}
	}
	scan(e.c.Prog)
	for _, dr := range e.c.Drivers {
		scan(dr)
	}
	d["children"] = fmt.Sprint(kids)
	d["merges"] = fmt.Sprint(merges)
	d["childOnlyBatch"] = fmt.Sprint(childOnly)
	d["delChild"] = fmt.Sprint(delKid)
	d["emptyKey"] = fmt.Sprint(emptyKey)
	d["structuralOnlyBatch"] = fmt.Sprint(structuralOnly)
	for k, v := range extra {
		d[k] = v
	}
	if df, ok := d["diff"]; ok {
		if strings.Contains(df, "child \"") && (strings.Contains(df, "want present") || strings.Contains(df, "want absent")) {
			d["diffKind"] = "child-presence"
		} else {
			d["diffKind"] = "key"
		}
	}
	return d
}

func (e *Exec) flag(name string) bool { return e.c.Flags[name] }

func (e *Exec) main() {
	defer func() {
		if r := recover(); r != nil {
			if _, ok := r.(abortRun); ok {
				return
			}
			if e.viol == nil {
				cls := "panic"
				msg := fmt.Sprint(r)
				if re, ok := r.(runtime.Error); ok && strings.Contains(re.Error(), "unexpected fault address") {
					cls = "fault"
				}
				e.viol = &Violation{Prop: e.c.Prop, Class: cls, Msg: "driver: " + msg, OpIdx: e.opIdx, Stack: string(debug.Stack()), Detail: e.detail(nil)}
			}
		}
	}()
	e.open(e.c.Opts, true)
	if e.c.Drivers != nil {
		e.runMulti()
	} else {
		for i, op := range e.c.Prog {
			e.opIdx = i
			before := simrt.Steps()
			e.step(op)
			if simrt.Steps() > before {
				// did any background task run between two driver operations?
			}
			e.turnChecks(op)
		}
		e.opIdx = len(e.c.Prog)
	}
	e.finish()
}

// ---------------------------------------------------------------------------
// opening / closing

func (e *Exec) collOptions(o Opts) moss.CollectionOptions {
	co := moss.CollectionOptions{
		MinMergePercentage:     o.MinMergePercentage,
		MaxPreMergerBatches:    o.MaxPreMergerBatches,
		MergerCancelCheckEvery: o.MergerCancelCheckEvery,
		MergerIdleRunTimeoutMS: o.MergerIdleRunTimeoutMS,
		DeferredSort:           o.DeferredSort,
		CachePersisted:         o.CachePersisted,
		MaxDirtyOps:            o.MaxDirtyOps,
		MaxDirtyKeyValBytes:    o.MaxDirtyKeyValBytes,
		ReadOnly:               o.ReadOnly,
		OnEvent:                e.onEvent,
		OnError:                e.onError,
	}
	if o.MergerIdleRunTimeoutMS == 0 {
		co.MergerIdleRunTimeoutMS = -1 // off unless asked for: the waker never ends otherwise
	}
	if o.MergeOp {
		co.MergeOperator = mergeOp{}
	}
	if e.c.Flags["failingMerge"] {
		co.MergeOperator = failingMergeOp{}
	}
	return co
}

func (e *Exec) storeOptions(o Opts) (moss.StoreOptions, moss.StorePersistOptions) {
	so := moss.StoreOptions{
		CollectionOptions:           e.collOptions(o),
		CompactionPercentage:        o.CompactionPercentage,
		CompactionLevelMaxSegments:  o.LevelMaxSegments,
		CompactionLevelMultiplier:   o.LevelMultiplier,
		CompactionBufferPages:       o.BufferPages,
		CompactionSync:              o.CompactionSync,
		CompactionSyncAfterBytes:    o.SyncAfterBytes,
		OpenFile:                    e.fs.OpenFile,
		KeepFiles:                   o.KeepFiles,
		SegmentKeysIndexMaxBytes:    o.IdxMaxBytes,
		SegmentKeysIndexMinKeyBytes: o.IdxMinKeyBytes,
	}
	spo := moss.StorePersistOptions{NoSync: o.NoSync, CompactionConcern: moss.CompactionConcern(o.Concern)}
	return so, spo
}

func (e *Exec) open(o Opts, first bool) {
	e.opts = o
	// package-level knobs: written only when they change (and never in C17
	// runs, where the generator pins them) so that the race detector does not
	// see harness writes racing with a previous run's readers
	want := 100
	if o.NaiveSeekMax > 0 {
		want = o.NaiveSeekMax
	}
	if moss.DefaultNaiveSeekToMaxTries != want {
		moss.DefaultNaiveSeekToMaxTries = want
	}
	if moss.SkipStats != o.SkipStats {
		moss.SkipStats = o.SkipStats
	}
	switch o.Backing {
	case "mem":
		c, err := moss.NewCollection(e.collOptions(o))
		if err != nil {
			e.fail("open-error", "NewCollection: %v", err)
		}
		c.Start()
		e.coll = c
	case "store":
		so, spo := e.storeOptions(o)
		st, c, err := moss.OpenStoreCollection(e.fs.Dir, so, spo)
		if err != nil {
			e.failD("open-error", map[string]string{"symptom": "open-error"}, "OpenStoreCollection: %v", err)
		}
		e.store, e.coll = st, c
		e.fs.MarkOp("open", e.lb, false)
	case "direct":
		// The application drives Store.Persist itself (single threaded, from its
		// own LowerLevelUpdate) and chooses the persist options of every round.
		so, _ := e.storeOptions(o)
		st, err := moss.OpenStore(e.fs.Dir, so)
		if err != nil {
			e.failD("open-error", map[string]string{"symptom": "open-error"}, "OpenStore: %v", err)
		}
		init, err := st.Snapshot()
		if err != nil {
			e.fail("open-error", "Store.Snapshot: %v", err)
		}
		co := e.collOptions(o)
		co.LowerLevelInit = init
		co.LowerLevelUpdate = func(higher moss.Snapshot) (moss.Snapshot, error) {
			concern := moss.CompactionDisable
			switch x := simrt.Choose(10, "round-concern"); {
			case x >= 8:
				concern = moss.CompactionForce
			case x >= 6:
				concern = moss.CompactionAllow
			}
			return st.Persist(higher, moss.StorePersistOptions{NoSync: o.NoSync, CompactionConcern: concern})
		}
		c, err := moss.NewCollection(co)
		if err != nil {
			e.fail("open-error", "NewCollection: %v", err)
		}
		c.Start()
		e.store, e.coll = st, c
		e.fs.MarkOp("open", e.lb, false)
	case "mapll":
		if e.ll == nil {
			e.ll = newMapLL(e)
		}
		co := e.collOptions(o)
		if !o.NoLLInit {
			co.LowerLevelInit = e.ll.snapshot()
		}
		co.LowerLevelUpdate = e.ll.update
		c, err := moss.NewCollection(co)
		if err != nil {
			e.fail("open-error", "NewCollection: %v", err)
		}
		c.Start()
		e.coll = c
	default:
		panic("unknown backing " + o.Backing)
	}
	e.collOpen = true
}

func (e *Exec) closeColl() {
	if e.collOpen {
		if err := e.coll.Close(); err != nil {
			e.fail("close-error", "Collection.Close: %v", err)
		}
		e.collOpen = false
	}
}

func (e *Exec) closeStore() {
	if e.store != nil {
		if err := e.store.Close(); err != nil {
			e.fail("close-error", "Store.Close: %v", err)
		}
		e.store = nil
	}
}

// ---------------------------------------------------------------------------
// callbacks (run in moss's own tasks)

//go:norace
func (e *Exec) onEvent(ev moss.Event) {
	switch ev.Kind {
	case moss.EventKindPersisterProgress:
		e.events.persistRounds++
		simrt.Note("persist-round", uint64(e.events.persistRounds))
		e.onPersistRound()
	case moss.EventKindMergerProgress:
		e.events.mergerRounds++
		if n := e.mergerStall; n > 0 && e.viol == nil {
			// a slow application callback: the merger is held up at the end of
			// this cycle while everybody else runs
			e.mergerStall = 0
			e.probe("merger-held-up")
			simrt.Stall(int64(n))
		}
	}
	simrt.Yield(siteCallback)
}

//go:norace
func (e *Exec) onError(err error) {
	e.events.errors = append(e.events.errors, err.Error())
	simrt.Note("onerror", uint64(len(e.events.errors)))
	simrt.Yield(siteCallback)
}

// onPersistRound runs in the persister task right after a successful round.
func (e *Exec) onPersistRound() {
	if e.store == nil || e.viol != nil || e.c.Drivers != nil || e.noRoundChecks {
		return
	}
	defer func() {
		if r := recover(); r != nil {
			if _, ok := r.(abortRun); ok {
				// violation recorded; let the persister task go on, the driver
				// notices e.viol at its next turn
				return
			}
			panic(r)
		}
	}()
	simrt.NoPreempt(true)
	defer simrt.NoPreempt(false)
	oracleDepth++
	defer func() { oracleDepth-- }()
	j := e.checkStore("persist-round")
	if e.noRoundChecks || e.store == nil {
		return // the driver closed the store while this callback was looking at it
	}
	e.fs.MarkOp("round", j, !e.opts.NoSync)
	if ss, err := e.store.Snapshot(); err == nil && ss != nil {
		if f, ok := ss.(*moss.Footer); ok && !footerHasSegments(f) {
			e.segmentlessFooter = true
		}
		ss.Close()
	}
	e.afterRoundCompactionCheck(j)
	if e.flag("history") {
		e.recordRound()
	}
	if e.flag("durableOnSuccess") {
		e.checkDurableNow(j)
	}
}

// ---------------------------------------------------------------------------
// program steps

func (e *Exec) step(op Op) {
	if e.viol != nil {
		panic(abortRun{})
	}
	switch op.Kind {
	case "batch":
		e.doBatch(op.B)
	case "bigkv":
		e.doBigKV(op)
	case "getErr":
		e.doGetErr(op)
	case "stallMerger":
		if e.collOpen && !e.opts.ReadOnly {
			e.mergerStall = op.N
		}
	case "bgRefuse":
		if e.opts.MergeOp && e.collOpen {
			mergeRefuseBg = 1 + op.N
		}
	case "verify":
		e.checkColl("verify")
	case "notify":
		if e.collOpen && !e.opts.ReadOnly {
			e.coll.(interface {
				NotifyMerger(string, bool) error
			}).NotifyMerger(op.S, op.Flag)
		}
	case "idle":
		before := simrt.Steps()
		simrt.Quiesce(int64(op.N), 0)
		if simrt.Steps() > before {
			e.probe("bg-step-between-ops")
		}
	case "drain":
		e.drain()
	case "clock":
		simrt.AdvanceClock(msDur(op.N))
		before := simrt.Steps()
		simrt.Quiesce(2000, 0)
		if simrt.Steps() > before {
			e.probe("bg-step-between-ops")
		}
	case "reopen":
		e.reopen(op)
	case "closeColl":
		e.closeAllHandlesIf(op.Flag)
		e.closeColl()
	case "closeStore":
		e.closeStore()
	case "snapOpen":
		e.snapOpen(op)
	case "snapVerify":
		e.snapVerify(op.N)
	case "snapClose":
		e.snapClose(op.N)
	case "iterProg":
		e.iterProg(op)
	case "snapIter":
		e.snapIter(op)
	case "previous":
		e.doPrevious(op)
	case "revert":
		e.doRevert(op)
	case "stopFaults":
		e.fs.StopFaults()
		if e.ll != nil {
			e.ll.stopFaults()
		}
	case "catchup":
		e.catchUp()
	case "roOps":
		e.readOnlyOps(op)
	case "postClose":
		e.postCloseCalls()
	default:
		panic("unknown op " + op.Kind)
	}
}

// doGetErr: a batch with one Merge operation, then a Collection.Get of that key
// during which the application's operator refuses: the read fails, everything
// else (open snapshots in particular) stays as it is.
func (e *Exec) doGetErr(op Op) {
	if !e.collOpen || !e.opts.MergeOp || op.B == nil || len(op.B.Ops) == 0 {
		return
	}
	e.doBatch(op.B)
	key := op.B.Ops[0].K
	mergeRefuseTask = simrt.Cur()
	v, err := e.coll.Get(key, moss.ReadOptions{})
	mergeRefuseTask = nil
	e.out.Checks++
	if err == nil {
		// no operand left to resolve (cannot happen right after a Merge): then
		// the value must be the right one
		want := e.hist.Last().KV[string(key)]
		if !bytes.Equal(v, want) {
			e.failD("content-mismatch", map[string]string{"symptom": "stale", "where": "collection-get"},
				"Collection.Get(%q) with a refusing operator returned %q without an error, reference holds %q", string(key), string(v), string(want))
		}
		return
	}
	e.probe("get-refused-by-operator")
}

// doBatch builds and executes a batch, then advances the model.
func (e *Exec) doBatch(bs *BatchSpec) {
	if !e.collOpen {
		return
	}
	b, err := e.coll.NewBatch(batchHints(bs))
	if err != nil {
		e.fail("batch-error", "NewBatch: %v", err)
	}
	if e.flag("limits") && simrt.Chance(0.08, "limits") {
		e.tryOversize(b)
	}
	e.fillBatch(b, bs, true)
	if e.flag("limits") && simrt.Chance(0.05, "limits2") {
		e.tryOversize(b)
	}
	// The batch may reach the lower level before ExecuteBatch returns to us, so
	// the model learns about it first; collection-level oracles only run at
	// driver turns, when no ExecuteBatch is in flight.
	e.hist.ApplyBatch(bs)
	e.drained = false
	err = e.coll.ExecuteBatch(b, moss.WriteOptions{})
	if err != nil {
		e.fail("batch-error", "ExecuteBatch: %v", err)
	}
	b.Close()
	e.noteKeys(bs)
	simrt.Note("batch", uint64(e.hist.N()))
}

func batchHints(bs *BatchSpec) (int, int) {
	tot := 0
	for _, kv := range bs.Ops {
		tot += len(kv.K) + len(kv.V)
	}
	return len(bs.Ops), tot
}

func (e *Exec) noteKeys(bs *BatchSpec) {
	for _, kv := range bs.Ops {
		e.probes[string(kv.K)] = true
	}
	for _, c := range bs.Kids {
		if c != nil {
			e.noteKeys(c)
		}
	}
}

func (e *Exec) probeKeys() []string {
	out := make([]string, 0, len(e.probes)*2)
	for k := range e.probes {
		out = append(out, k, k+"\x00")
		if len(k) > 0 {
			out = append(out, k[:len(k)-1])
		}
	}
	sort.Strings(out)
	return out
}

// fillBatch issues the operations of bs against the moss batch.
func (e *Exec) fillBatch(b moss.Batch, bs *BatchSpec, top bool) {
	type late struct {
		op   string
		k, v []byte
	}
	var lates []late
	var carve []byte
	if bs.AllocLate == 2 {
		tot := 0
		for _, kv := range bs.Ops {
			if kv.Alloc {
				tot += len(kv.K) + len(kv.V)
			}
		}
		if tot > 0 {
			buf, aerr := b.Alloc(tot)
			if aerr != nil {
				e.fail("batch-error", "Alloc(%d): %v", tot, aerr)
			}
			carve = buf
		}
	}
	for _, kv := range bs.Ops {
		var err error
		if kv.Alloc && bs.AllocLate != 0 {
			// the bytes are allocated (or carved from the one allocation) and
			// filled now, the operation is registered after the loop
			n := len(kv.K) + len(kv.V)
			var buf []byte
			if bs.AllocLate == 2 {
				buf, carve = carve[:n], carve[n:] // no capacity limit: moss locates the key through cap()
			} else {
				var aerr error
				if buf, aerr = b.Alloc(n); aerr != nil {
					e.fail("batch-error", "Alloc(%d): %v", n, aerr)
				}
			}
			copy(buf, kv.K)
			copy(buf[len(kv.K):], kv.V)
			lates = append(lates, late{kv.Op, buf[:len(kv.K)], buf[len(kv.K):]})
			continue
		}
		if kv.Alloc {
			buf, aerr := b.Alloc(len(kv.K) + len(kv.V))
			if aerr != nil {
				e.fail("batch-error", "Alloc(%d): %v", len(kv.K)+len(kv.V), aerr)
			}
			copy(buf, kv.K)
			copy(buf[len(kv.K):], kv.V)
			k := buf[:len(kv.K)]
			v := buf[len(kv.K):]
			switch kv.Op {
			case "set":
				err = b.AllocSet(k, v)
			case "del":
				err = b.AllocDel(k)
			case "merge":
				err = b.AllocMerge(k, v)
			}
		} else {
			switch kv.Op {
			case "set":
				err = b.Set(kv.K, kv.V)
			case "del":
				err = b.Del(kv.K)
			case "merge":
				err = b.Merge(kv.K, kv.V)
			}
		}
		if err != nil {
			e.fail("batch-error", "batch %s %q: %v", kv.Op, string(kv.K), err)
		}
	}
	for i := len(lates) - 1; i >= 0; i-- {
		var err error
		l := lates[i]
		switch l.op {
		case "set":
			err = b.AllocSet(l.k, l.v)
		case "del":
			err = b.AllocDel(l.k)
		case "merge":
			err = b.AllocMerge(l.k, l.v)
		}
		if err != nil {
			e.fail("batch-error", "batch Alloc%s %q (registered late): %v", l.op, string(l.k), err)
		}
	}
	for _, name := range bs.DelKids {
		if err := b.DelChildCollection(name); err != nil {
			e.fail("batch-error", "DelChildCollection(%q): %v", name, err)
		}
	}
	for _, name := range bs.kidNames() {
		cb := bs.Kids[name]
		n, tot := 0, 0
		if cb != nil {
			n, tot = batchHints(cb)
		}
		child, err := b.NewChildCollectionBatch(name, moss.BatchOptions{TotalOps: n, TotalKeyValBytes: tot})
		if err != nil {
			e.fail("batch-error", "NewChildCollectionBatch(%q): %v", name, err)
		}
		if cb != nil {
			e.fillBatch(child, cb, false)
		}
	}
}

// ---------------------------------------------------------------------------
// oracles at driver turns

func (e *Exec) verifyMode(on bool) {
	if e.c.VerifyAtomic {
		simrt.NoPreempt(on)
	}
}

//go:norace
func (e *Exec) noteShape() {
	if !e.collOpen {
		return
	}
	st, err := e.coll.Stats()
	if err != nil || st == nil {
		return
	}
	segs := uint64(0)
	if e.store != nil {
		if ss, _ := e.store.Snapshot(); ss != nil {
			if f, ok := ss.(*moss.Footer); ok {
				segs = uint64(len(f.SegmentLocs))
			}
			ss.Close()
		}
	}
	nonEmpty := 0
	for _, h := range []uint64{st.CurDirtyTopSegments, st.CurDirtyMidSegments, st.CurDirtyBaseSegments, st.CurCleanSegments, segs} {
		if h > 0 {
			nonEmpty++
		}
	}
	if nonEmpty >= 2 {
		e.probe("multi-section-compare")
	}
	e.lastShape = fmt.Sprintf("top%d/mid%d/base%d/clean%d/store%d", st.CurDirtyTopSegments, st.CurDirtyMidSegments, st.CurDirtyBaseSegments, st.CurCleanSegments, segs)
	e.shapes[fmt.Sprintf("top%d/mid%d/base%d/clean%d/store%d", capN(st.CurDirtyTopSegments), capN(st.CurDirtyMidSegments),
		capN(st.CurDirtyBaseSegments), capN(st.CurCleanSegments), capN(segs))] = true
}

func capN(v uint64) uint64 {
	if v > 4 {
		return 4
	}
	return v
}

// checkColl: the collection's snapshot equals model_n exactly (C01 core).
func (e *Exec) checkColl(why string) {
	if !e.collOpen {
		return
	}
	e.verifyMode(true)
	defer e.verifyMode(false)
	e.noteShape()
	ss, err := e.coll.Snapshot()
	if err != nil {
		e.fail("snapshot-error", "Snapshot: %v", err)
	}
	e.out.Checks++
	want := e.hist.Last()
	probes := e.probeKeys()
	m := equalContent(ss, want, probes, "")
	if m == nil && e.flag("readPaths") {
		m = e.readPathsAgree(ss, want, probes)
	}
	if m == nil && len(e.bigs) > 0 {
		e.checkBig(ss, "collection")
	}
	ss.Close()
	if m != nil {
		e.failD("content-mismatch", map[string]string{"symptom": m.Kind, "where": "collection", "path": m.Path, "key": m.Key},
			"collection snapshot differs from the reference after %d batches (%s): %s", e.hist.N(), why, m)
	}
	simrt.Note("verify-ok", uint64(e.hist.N()))
}

// readPathsAgree: Collection.Get (both copy modes) agrees with the model (and
// hence with Snapshot.Get and iteration, which equalContent already compared).
func (e *Exec) readPathsAgree(ss moss.Snapshot, want *Node, probes []string) *mismatch {
	keys := append(append([]string{}, probes...), want.SortedKeys()...)
	seen := map[string]bool{}
	for _, k := range keys {
		if seen[k] {
			continue
		}
		seen[k] = true
		wv, live := want.KV[k]
		for _, nocopy := range []bool{false, true} {
			got, err := e.coll.Get([]byte(k), moss.ReadOptions{NoCopyValue: nocopy})
			if err != nil {
				return &mismatch{Key: k, Kind: "error", Detail: fmt.Sprintf("Collection.Get: %v", err)}
			}
			if m := cmpVal("", k, wv, live, got, fmt.Sprintf("Collection.Get(nocopy=%v)", nocopy)); m != nil {
				m.Kind = "get-disagree-" + m.Kind
				return m
			}
			if !nocopy && got != nil {
				e.copies = append(e.copies, copyRec{got: got, want: append([]byte{}, wv...), key: k})
			}
		}
	}
	return nil
}

var errStoreGone = fmt.Errorf("store closed")

// lowerContent returns the content of the lower level (store snapshot or map).
func (e *Exec) lowerContent() (*Node, moss.Snapshot, error) {
	if e.store != nil {
		ss, err := e.store.Snapshot()
		if err != nil {
			return nil, nil, err
		}
		if ss == nil {
			return NewNode(), nil, nil
		}
		if f, ok := ss.(*moss.Footer); ok && f == nil {
			// the driver has closed the store in the meantime (close order
			// "store first"): nothing to look at
			return nil, nil, errStoreGone
		}
		n, err := dumpSnapshot(ss)
		if err != nil {
			ss.Close()
			return nil, nil, err
		}
		return n, ss, nil
	}
	if e.ll != nil {
		return e.ll.content(), nil, nil
	}
	return nil, nil, nil
}

// checkStore: the lower level equals some model_j and j never goes back.
// Returns the j it settled on.
func (e *Exec) checkStore(why string) int {
	if e.store == nil && e.ll == nil {
		return e.lb
	}
	// The bound is read before the snapshot is taken: another task (the
	// persister's round callback) may raise e.lb while this task is still
	// reading an older - perfectly legitimate - snapshot.
	lb0 := e.lb
	content, ss, err := e.lowerContent()
	if err == errStoreGone && e.noRoundChecks {
		return e.lb
	}
	if err != nil {
		e.failD("store-read-error", map[string]string{"symptom": "error", "where": "store"}, "reading the lower level (%s): %v", why, err)
	}
	if ss != nil {
		defer ss.Close()
	}
	e.out.Checks++
	J := e.hist.Match(content)
	if len(J) == 0 {
		d := e.hist.Last().Diff(content, "")
		e.failD("store-not-prefix", map[string]string{"symptom": "not-prefix", "where": "store", "diff": d},
			"lower level (%s) equals no prefix of the %d executed batches; against the full reference: %s", why, e.hist.N(), d)
	}
	j := Advance(lb0, J)
	if j < 0 {
		e.failD("store-went-back", map[string]string{"symptom": "went-back", "where": "store"},
			"lower level (%s) shows prefix %v (content %s), older than the prefix %d it had exposed before", why, J, trunc(content.Canon(), 200), lb0)
	}
	if j > e.lb {
		e.lb = j
	}
	if ss != nil {
		if m := equalContent(ss, e.hist.Models[j], e.probeKeys(), ""); m != nil {
			e.failD("store-content-mismatch", map[string]string{"symptom": m.Kind, "where": "store", "path": m.Path, "key": m.Key},
				"store snapshot (%s) iterates as prefix %d but point reads disagree: %s", why, j, m)
		}
		if len(e.bigs) > 0 {
			e.checkBig(ss, "store")
		}
	}
	// equal-content batches make the index ambiguous: "holds everything" means
	// that the full reference content is among the matches
	// equal-content batches make the index ambiguous.  "Surely holds everything":
	// the most lenient assignment is the full reference; "maybe": the full
	// reference content is among the matches, which counts only together with
	// the collection's own report that nothing is dirty (see caughtUp).
	e.storeSurelyAll = j == e.hist.N()
	e.storeMaybeAll = contains(J, e.hist.N())
	if e.storeSurelyAll {
		e.drained = true
	}
	return j
}

// caughtUp: persistence has caught up with the last executed batch.  Called
// when the background tasks are idle.
func (e *Exec) caughtUp() bool {
	if e.storeSurelyAll {
		return true
	}
	if !e.storeMaybeAll || !e.collOpen {
		return false
	}
	// The match is ambiguous (an earlier model has the same content) and the
	// dirty gauges are to break the tie.  They cannot vouch for structural
	// changes of the child tree (known finding KF1: the gauges count
	// operations, bytes and segments, and such changes have none), so with a
	// batch that creates or deletes child collections among those the lower
	// level is not known to hold, the question stays open.
	for j := e.lb + 1; j <= e.hist.N() && j < len(e.hist.Specs); j++ {
		if touchesChildTree(e.hist.Specs[j]) {
			e.probe("caught-up-undecided-structural")
			return false
		}
	}
	st, err := e.coll.Stats()
	if err != nil || st == nil {
		return false
	}
	if os.Getenv("VERIF_DEBUG") != "" {
		fmt.Fprintf(os.Stderr, "caughtUp: maybe=%v ops=%d bytes=%d segs=%d others=%v\n%s\n", e.storeMaybeAll, st.CurDirtyOps, st.CurDirtyBytes, st.CurDirtySegments, simrt.OthersEligible(), simrt.DumpTasks())
	}
	return st.CurDirtyOps == 0 && st.CurDirtyBytes == 0 && st.CurDirtySegments == 0 && !simrt.OthersEligible()
}

// turnChecks run after every driver operation, according to the case's flags.
func (e *Exec) turnChecks(op Op) {
	if e.viol != nil {
		panic(abortRun{})
	}
	if len(e.pendingDurable) > 0 {
		e.processDurable()
	}
	if op.Kind == "batch" && e.flag("verifyEach") {
		e.checkColl("after-batch")
	}
	if e.flag("storeEach") && e.collOpen && (e.store != nil || e.ll != nil) {
		e.verifyMode(true)
		e.checkStore("turn")
		e.verifyMode(false)
	}
	if e.flag("gauges") && e.collOpen {
		e.checkGauges()
	}
	if e.flag("compactShape") && e.store != nil {
		e.checkCompactionShape()
	}
	if e.flag("snapEach") {
		for i := range e.handles {
			e.snapVerify(i)
		}
	}
}

// drain lets the background tasks work until the lower level holds model_n
// (observed), bounded.
func (e *Exec) drain() bool {
	if !e.collOpen || e.opts.Backing == "mem" || e.opts.ReadOnly {
		simrt.Quiesce(20000, 0)
		return false
	}
	jumps := 0
	if e.opts.MergerIdleRunTimeoutMS > 0 {
		jumps = 4 // the idle merger may legitimately be what hands the rest down
	}
	for round := 0; round < 6; round++ {
		before := simrt.Steps()
		idle := simrt.Quiesce(50000, jumps)
		if simrt.Steps() > before {
			e.probe("bg-step-between-ops")
		}
		if e.viol != nil {
			panic(abortRun{})
		}
		e.verifyMode(true)
		e.checkStore("drain")
		e.verifyMode(false)
		if e.caughtUp() {
			e.drained = true
			e.gaugesSettle()
			return true
		}
		if idle && !simrt.OthersEligible() {
			// Nobody was kicked: the application is not required to notify the
			// merger for its batches to be persisted.
			break
		}
	}
	e.probe("drain-incomplete")
	if e.viol == nil && e.fs.FaultSeen == 0 && !e.fs.FaultsPending() && (e.ll == nil || len(e.ll.faults) == 0) &&
		!simrt.OthersEligible() && !e.storeMaybeAll {
		d := "?"
		if content, ss, err := e.lowerContent(); err == nil {
			if ss != nil {
				ss.Close()
			}
			d = e.hist.Last().Diff(content, "")
		}
		e.failD("stuck-unpersisted", map[string]string{"symptom": "stuck-unpersisted", "diff": d},
			"no fault was injected, every background task is idle (merger and persister wait for work) after repeated notifications, yet the lower level still lacks executed batches (it shows prefix %d of %d): %s",
			e.lb, e.hist.N(), d+"\n"+e.gaugeText()+"\n"+simrt.DumpTasks())
	}
	return false
}

// reopen: close collection and store, open again (possibly with new options),
// and check the reopened content (C04).
func (e *Exec) reopen(op Op) {
	if !e.isStore() {
		return
	}
	wasDrained := e.drained
	gaugesZero := false
	if e.collOpen {
		if st, err := e.coll.Stats(); err == nil && st.CurDirtyOps == 0 && st.CurDirtyBytes == 0 && st.CurDirtySegments == 0 {
			gaugesZero = true
		}
		e.verifyMode(true)
		e.checkStore("before-close")
		e.verifyMode(false)
	}
	e.closeAllHandlesIf(true)
	e.closeColl()
	e.closeStore()
	if !op.Flag {
		simrt.Quiesce(20000, 4)
		if e.flag("dirCheck") {
			// everything is closed: only the current data file may be left (the
			// reopen below would clean up behind a leak)
			e.checkDirectory("after closing everything, before the reopen")
		}
	} else {
		// reopen at once: asynchronous work of the closed store (the
		// unlinking of superseded files) may still be in flight
		e.probe("reopen-without-settling")
	}
	o := e.opts
	if op.O != nil {
		o = *op.O
	}
	e.open(o, false)
	e.afterReopen(wasDrained, gaugesZero, "reopen")
}

func (e *Exec) afterReopen(wasDrained, gaugesZero bool, why string) {
	ss, err := e.coll.Snapshot()
	if err != nil {
		e.fail("snapshot-error", "Snapshot after %s: %v", why, err)
	}
	content, err := dumpSnapshot(ss)
	if err != nil {
		ss.Close()
		e.failD("reopen-read-error", map[string]string{"symptom": "error", "where": "reopen"}, "reading the reopened collection: %v", err)
	}
	J := e.hist.Match(content)
	if len(J) == 0 {
		d := e.hist.Last().Diff(content, "")
		ss.Close()
		e.failD("reopen-not-prefix", map[string]string{"symptom": "not-prefix", "where": "reopen", "diff": d},
			"content after %s equals no prefix of the %d executed batches (a mixture); against the full reference: %s", why, e.hist.N(), d)
	}
	j := Advance(e.lb, J)
	if j < 0 {
		ss.Close()
		e.failD("reopen-lost-data", map[string]string{"symptom": "went-back", "where": "reopen"},
			"content after %s is prefix %v, older than prefix %d the store had already exposed before closing", why, J, e.lb)
	}
	n := e.hist.N()
	if wasDrained && j != n && !contains(J, n) {
		ss.Close()
		e.failD("reopen-lost-data", map[string]string{"symptom": "drained-but-lost", "where": "reopen",
			// is everything the reopened content lacks structural (child collections created empty / deleted)?
			"pendingStructuralOnly": fmt.Sprint(e.hist.PendingStructuralOnly(J[len(J)-1]))},
			"persistence had caught up with all %d batches before closing, yet the reopened content is prefix %v", n, J)
	}
	if contains(J, n) {
		j = n
	}
	if m := equalContent(ss, e.hist.Models[j], e.probeKeys(), ""); m != nil {
		ss.Close()
		e.failD("reopen-content-mismatch", map[string]string{"symptom": m.Kind, "where": "reopen", "path": m.Path, "key": m.Key},
			"reopened collection iterates as prefix %d but point reads disagree: %s", j, m)
	}
	if len(e.bigs) > 0 {
		e.checkBig(ss, "reopen")
	}
	ss.Close()
	e.out.Checks++
	if j < n {
		e.probe("reopen-prefix-shorter")
	}
	_ = gaugesZero
	// the reopened content is the new base line
	e.hist.ResetTo(e.hist.Models[j])
	e.lb = e.hist.N()
	e.drained = true
	// the walkable history lives in the file and survives a reopen; only the
	// new Store object's counters start from zero
	e.histPersists, e.histCompactions = 0, 0
	e.lastCompactions, e.lastPartial = 0, 0
	simrt.Note("reopen-ok", uint64(j))
}

func contains(a []int, x int) bool {
	for _, v := range a {
		if v == x {
			return true
		}
	}
	return false
}

// finish closes everything and runs the end-of-run checks.
func (e *Exec) finish() {
	e.processDurable()
	if e.flag("finalVerify") && e.collOpen {
		e.checkColl("final")
	}
	if e.flag("finalReopen") && e.isStore() && e.collOpen {
		e.reopen(Op{})
		e.checkColl("final-reopen")
	}
	leak := e.flag("leakCheck")
	if leak || e.flag("snapEach") {
		e.closeEverythingRandomOrder()
	} else {
		e.closeAllHandlesIf(true)
	}
	e.closeColl()
	e.closeStore()
	simrt.Quiesce(50000, 4)
	// copied values must survive closing everything (C10)
	for _, c := range e.copies {
		if string(c.got) != string(c.want) {
			e.failD("copy-corrupted", map[string]string{"symptom": "copy-corrupted", "key": c.key},
				"value copied by Get for key %q changed after close: now %q, was %q", c.key, string(c.got), string(c.want))
		}
	}
	if leak {
		e.checkLeaks()
	} else if e.flag("dirCheck") && e.isStore() {
		e.checkDirectory("after closing everything")
	}
}

func msDur(ms int) time.Duration { return time.Duration(ms) * time.Millisecond }

func trunc(s string, n int) string {
	if len(s) > n {
		return s[:n] + "..."
	}
	return s
}

var oversizeKey = make([]byte, 1<<24) // one byte more than the documented key limit
var oversizeVal []byte                // 1<<28, allocated on first use

// tryOversize: oversize keys / values are rejected with the documented errors
// and leave the other operations of the batch alone (C19).
func (e *Exec) tryOversize(b moss.Batch) {
	e.out.Checks++
	// one of several probe shapes, so that what a late limit check leaves
	// behind in the batch differs (a lone Del of a 2^24-byte key leaves a
	// pre-allocated buffer exactly full)
	switch simrt.Choose(4, "oversize-shape") {
	case 0:
		if err := b.Set(oversizeKey, []byte("v")); err != moss.ErrKeyTooLarge {
			e.failD("limit-not-enforced", map[string]string{"symptom": "key-limit"}, "Set with a key of 2^24 bytes: err=%v, want ErrKeyTooLarge", err)
		}
		if err := b.Del(oversizeKey); err != moss.ErrKeyTooLarge {
			e.failD("limit-not-enforced", map[string]string{"symptom": "key-limit"}, "Del with a key of 2^24 bytes: err=%v, want ErrKeyTooLarge", err)
		}
	case 1:
		if err := b.Del(oversizeKey); err != moss.ErrKeyTooLarge {
			e.failD("limit-not-enforced", map[string]string{"symptom": "key-limit"}, "Del with a key of 2^24 bytes: err=%v, want ErrKeyTooLarge", err)
		}
	case 2:
		if err := b.Merge(oversizeKey, nil); err != moss.ErrKeyTooLarge {
			e.failD("limit-not-enforced", map[string]string{"symptom": "key-limit"}, "Merge with a key of 2^24 bytes: err=%v, want ErrKeyTooLarge", err)
		}
	case 3:
		if err := b.Set(oversizeKey, nil); err != moss.ErrKeyTooLarge {
			e.failD("limit-not-enforced", map[string]string{"symptom": "key-limit"}, "Set with a key of 2^24 bytes: err=%v, want ErrKeyTooLarge", err)
		}
	}
	e.probe("oversize-key-rejected")
	// (a 2^28-byte value costs about 0.1 s to be copied where the limit is
	// checked late, hence rarer in the quick tier)
	pBig := 0.03
	if e.c.Flags["tier-thorough"] {
		pBig = 0.2
	}
	if simrt.Chance(pBig, "bigval") {
		if oversizeVal == nil {
			// never written: an anonymous mapping costs nothing until somebody
			// copies it (which a store that checks the limit first never does)
			m, err := syscall.Mmap(-1, 0, 1<<28, syscall.PROT_READ, syscall.MAP_ANON|syscall.MAP_PRIVATE)
			if err != nil {
				m = make([]byte, 1<<28)
			}
			oversizeVal = m
		}
		if err := b.Set([]byte("big"), oversizeVal); err != moss.ErrValueTooLarge {
			e.failD("limit-not-enforced", map[string]string{"symptom": "value-limit"}, "Set with a value of 2^28 bytes: err=%v, want ErrValueTooLarge", err)
		}
		e.probe("oversize-value-rejected")
	}
}

// isStore: the lower level is a mossStore (opened through OpenStoreCollection
// or driven directly by the application).
func (e *Exec) isStore() bool { return e.opts.Backing == "store" || e.opts.Backing == "direct" }
