package harness

import (
	"crypto/sha256"
	"fmt"
	"os"
	"path/filepath"
	"sort"
	"strings"
	"time"

	"github.com/couchbase/moss"
	"verifsim/simrt"
)

// ---------------------------------------------------------------------------
// C06: I/O fault enumeration

func genFault(c *Case, r *simrt.Rand, tier string) {
	cfg := propCfg("C04")
	cfg.maxOps = 12
	if tier == "thorough" {
		cfg.maxOps = 24
	}
	cfg.flags = []string{"storeEach", "verifyEach", "faultEnum", "durableOnSuccess", "surfaced"}
	cfg.reopen = 0
	cfg.drainW = 10
	cfg.idleW = 25
	cfg.kids = 0.3
	cfg.idle = 0
	cfg.merges = 0.4
	cfg.concerns = []int{0, 1, 1, 1, 2}
	cfg.partial = 0.35
	genSingle(c, r, cfg)
	c.Opts.KeepFiles = false
	c.Prog = append(c.Prog, Op{Kind: "stopFaults"}, Op{Kind: "catchup"}, Op{Kind: "verify"})
	c.Flags["finalReopen"] = true
	c.Flags["tier-"+tier] = true
}

// Deadline, when set by the worker, ends enumerations (inner fault runs, crash
// images) of the case in progress once the wall-clock budget is used up.  It
// only decides how much of a case is explored, never the verdict of anything
// that is explored.
var Deadline time.Time

func kindsFor(class string) []string {
	switch class {
	case "write":
		return []string{"write-eio", "write-short", "write-enospc", "write-short-noerr"}
	case "sync":
		return []string{"sync-eio"}
	case "stat":
		return []string{"stat-eio"}
	case "open":
		return []string{"open-eio"}
	case "remove":
		return []string{"remove-eio"}
	case "readdir":
		return []string{"readdir-eio"}
	case "osfile":
		return []string{"mmap-fail"}
	}
	return nil
}

// RunFaultEnum executes the fault-free base run, then one run per
// (fault-eligible file operation x applicable error kind), plus bursts and
// persistent faults.  The returned outcome aggregates all of them; on a
// violation ReplayCase is the single failing inner case.
func RunFaultEnum(c *Case) (*Outcome, error) {
	base := cloneCase(c)
	delete(base.Flags, "faultEnum")
	base.Faults = nil
	out, classes, err := runCaseEx(base)
	if err != nil {
		return nil, err
	}
	out.Case = c
	if out.Violation != nil {
		out.ReplayCase = base
		return out, nil
	}
	thorough := c.Flags["tier-thorough"]
	r := simrt.NewRand(simrt.Mix(c.SchedSeed, 0xfa17))
	type plan struct{ f Fault }
	var plans []plan
	for i, cl := range classes {
		for _, k := range kindsFor(cl) {
			f := Fault{At: i, Kind: k, Count: 1, Frac: r.Intn(1000)}
			plans = append(plans, plan{f})
		}
	}
	// bursts and persistent faults on a sample of positions
	nExtra := len(classes) / 3
	if nExtra > 12 && !thorough {
		nExtra = 12
	}
	for x := 0; x < nExtra && len(classes) > 0; x++ {
		i := r.Intn(len(classes))
		ks := kindsFor(classes[i])
		if len(ks) == 0 {
			continue
		}
		f := Fault{At: i, Kind: "any", Frac: r.Intn(1000)}
		if r.Chance(0.5) {
			f.Count = pick(r, []int{2, 3, 8})
		} else {
			f.Count = -1
			f.Until = i + 1 + r.Intn(30)
		}
		f.Kind = pick(r, ks)
		plans = append(plans, plan{f})
	}
	limit := 48
	if thorough {
		limit = 100000
	}
	if len(plans) > limit {
		// keep an evenly spread sample (every index class still visited over many cases)
		step := float64(len(plans)) / float64(limit)
		var sel []plan
		for x := 0; x < limit; x++ {
			sel = append(sel, plans[int(float64(x)*step)])
		}
		plans = sel
	} else {
		out.Probes["fault-enum-exhaustive"]++
	}
	// drawn order: when the worker's wall-clock budget ends in the middle of a
	// case the inner runs done so far are an even sample of the plan
	for i := len(plans) - 1; i > 0; i-- {
		j := r.Intn(i + 1)
		plans[i], plans[j] = plans[j], plans[i]
	}
	for _, pl := range plans {
		if !Deadline.IsZero() && time.Now().After(Deadline) {
			out.Probes["fault-enum-cut-by-budget"]++
			break
		}
		inner := cloneCase(base)
		inner.Faults = []Fault{pl.f}
		inner.MaxSteps = 80000
		io, _, err := runCaseEx(inner)
		if err != nil {
			return nil, err
		}
		out.FaultPoints++
		out.Steps += io.Steps
		out.Switches += io.Switches
		out.SimNanos += io.SimNanos
		out.Checks += io.Checks
		out.Images += io.Images
		for k, v := range io.Faults {
			out.Faults[k] += v
		}
		for k, v := range io.Probes {
			out.Probes[k] += v
		}
		if io.StepLimit {
			out.Probes["inner-step-limit"]++
		}
		if io.Violation != nil {
			if io.Violation.Detail == nil {
				io.Violation.Detail = map[string]string{}
			}
			io.Violation.Detail["faultAt"] = fmt.Sprint(pl.f.At)
			io.Violation.Detail["faultKind"] = pl.f.Kind
			io.Violation.Detail["faultCount"] = fmt.Sprint(pl.f.Count)
			out.Violation = io.Violation
			out.ReplayCase = inner
			out.Decisions = io.Decisions
			return out, nil
		}
	}
	out.NonTrivial = out.Faults != nil && len(out.Faults) > 0
	return out, nil
}

// catchUp: faults have stopped; under a fair schedule the lower level reaches
// the full reference content within a bounded number of scheduling points.
func (e *Exec) catchUp() {
	if !e.collOpen || e.opts.Backing == "mem" {
		return
	}
	e.processDurable()
	simrt.Fair(true)
	defer simrt.Fair(false)
	const bound = 150000
	start := simrt.Steps()
	for round := 0; ; round++ {
		simrt.Quiesce(20000, 0)
		if e.viol != nil {
			panic(abortRun{})
		}
		j := e.checkStore("catch-up")
		if e.caughtUp() {
			e.drained = true
			e.probe("caught-up")
			break
		}
		if simrt.Steps()-start > bound || (round > 8 && !simrt.OthersEligible()) {
			d := "?"
			if content, ss, err := e.lowerContent(); err == nil {
				if ss != nil {
					ss.Close()
				}
				d = e.hist.Last().Diff(content, "")
			}
			e.failD("no-catch-up", map[string]string{"symptom": "no-catch-up", "diff": d},
				"operations succeed again, yet after %d fair scheduling points the lower level still lacks executed batches (prefix %d of %d): %s; errors seen: %v; %s",
				simrt.Steps()-start, j, e.hist.N(), d, lastN(e.events.errors, 3), e.gaugeText())
		}
		e.coll.(interface {
			NotifyMerger(string, bool) error
		}).NotifyMerger("", false)
	}
	if e.flag("surfaced") {
		st, err := e.coll.Stats()
		if err == nil && int(st.TotPersisterLowerLevelUpdateErr) > len(e.events.errors) {
			e.failD("error-not-surfaced", map[string]string{"symptom": "not-surfaced"},
				"%d persistence rounds failed but OnError was invoked only %d times", st.TotPersisterLowerLevelUpdateErr, len(e.events.errors))
		}
		if err == nil && st.TotPersisterLowerLevelUpdateBeg != st.TotPersisterLowerLevelUpdateEnd+st.TotPersisterLowerLevelUpdateErr {
			e.failD("error-not-surfaced", map[string]string{"symptom": "round-unaccounted"},
				"persistence rounds begun=%d, completed=%d, failed=%d: a round neither completed nor reported an error",
				st.TotPersisterLowerLevelUpdateBeg, st.TotPersisterLowerLevelUpdateEnd, st.TotPersisterLowerLevelUpdateErr)
		}
	}
}

func lastN(a []string, n int) []string {
	if len(a) > n {
		return a[len(a)-n:]
	}
	return a
}

// checkDurableNow: a round just reported success; the directory as it is now
// (all operations so far applied) must reopen to a prefix >= j.  Called in the
// persister's task: only the directory is captured here, the verdict is
// computed by the driver at its next turn (no oracle work inside moss's tasks).
func (e *Exec) checkDurableNow(j int) {
	img := newDisk()
	for _, n := range e.fs.Listing() {
		b, err := os.ReadFile(filepath.Join(e.fs.Dir, n))
		if err == nil {
			img.files[n] = b
		}
	}
	e.pendingDurable = append(e.pendingDurable, durableCheck{img: img, j: j, round: e.events.persistRounds})
	if !e.roundsNoSync() {
		// with syncing enabled a round that reports success has made its
		// batches durable: what the syncs so far guarantee after a power
		// loss (nothing of the un-synced writes) must reopen to it, too
		e.pendingDurable = append(e.pendingDurable, durableCheck{img: syncedImage(e.fs.Trace), j: j, round: e.events.persistRounds, synced: true})
	}
}

// roundsNoSync: was any persistence round of this run allowed to skip its syncs?
func (e *Exec) roundsNoSync() bool {
	if e.c.Opts.NoSync || e.opts.NoSync {
		return true
	}
	for _, op := range e.c.Prog {
		if op.O != nil && op.O.NoSync {
			return true
		}
	}
	return false
}

type durableCheck struct {
	img    *diskState
	j      int
	round  int
	synced bool
}

// processDurable judges the directory images captured after successful rounds.
func (e *Exec) processDurable() {
	for len(e.pendingDurable) > 0 {
		dc := e.pendingDurable[0]
		e.pendingDurable = e.pendingDurable[1:]
		dir := fmt.Sprintf("%s-dur%d-%v", e.fs.Dir, dc.round, dc.synced)
		if err := dc.img.materialise(dir); err != nil {
			continue
		}
		e.out.Images++
		v := e.imageVerdict(dir, dc.j, false, nil)
		os.RemoveAll(dir)
		if v != "" && dc.synced {
			e.failD("success-not-durable", map[string]string{"symptom": vclass(v), "image": "synced-only"},
				"persistence round %d reported success with prefix %d (syncing enabled), but what had been synced by that moment does not reopen to it after a power loss: %s", dc.round, dc.j, v)
		}
		if v != "" {
			e.failD("success-not-durable", map[string]string{"symptom": vclass(v)},
				"persistence round %d reported success with prefix %d, but the directory as written at that moment does not reopen to it: %s", dc.round, dc.j, v)
		}
	}
}

// ---------------------------------------------------------------------------
// C18: ReadOnly never touches the directory

func genReadOnly(c *Case, r *simrt.Rand, tier string) {
	cfg := propCfg("C04")
	cfg.maxOps = 12
	if tier == "thorough" {
		cfg.maxOps = 25
	}
	cfg.flags = []string{"readonly"}
	cfg.reopen = 3
	cfg.drainW = 12
	cfg.kids = 0.3
	genSingle(c, r, cfg)
	if r.Chance(0.1) {
		// tiny stores: the complete data file holds a header page and a footer
		// and nothing else (only an empty child collection was ever created; a
		// full compaction after every key was deleted, with or without the
		// superseded file still around)
		k := []byte("k")
		if r.Chance(0.5) {
			c.Prog = []Op{{Kind: "batch", B: &BatchSpec{Kids: map[string]*BatchSpec{"x": {}}}}, {Kind: "drain"}}
		} else {
			c.Opts.Concern = 2
			c.Opts.KeepFiles = r.Chance(0.5)
			c.Prog = []Op{{Kind: "batch", B: &BatchSpec{Ops: []KV{{Op: "set", K: k, V: []byte("v1.0")}}}}, {Kind: "drain"},
				{Kind: "batch", B: &BatchSpec{Ops: []KV{{Op: "del", K: k}}}}, {Kind: "drain"}}
		}
		c.Faults = nil
	}
	// phase 2 program: reads, a few batches, notifications, closes
	n := 2 + r.Intn(8)
	g := &batchGen{r: r, pool: keyPool(r, false)}
	if r.Chance(0.4) {
		// batches that create / delete child collections in the read-only collection
		g.kids = true
		g.names = [][]string{{"x", "y"}, {"x"}, {"c1", "c2", ".r"}}[r.Intn(3)]
	}
	var prog []Op
	for i := 0; i < n; i++ {
		switch x := r.Intn(10); {
		case x < 4:
			prog = append(prog, Op{Kind: "verify"})
		case x < 6:
			prog = append(prog, Op{Kind: "batch", B: g.batch()})
		case x < 7:
			prog = append(prog, Op{Kind: "notify", S: pick(r, []string{"", "mergeAll"})})
		case x < 8:
			// advanced API: Store.Persist called directly (single threaded: a
			// read-only collection has no persister)
			prog = append(prog, Op{Kind: "persist", N: r.Intn(3), Flag: r.Chance(0.7)})
		default:
			prog = append(prog, Op{Kind: "idle", N: pick(r, []int{10, 200, 2000})})
		}
	}
	ro := genOpts(r, cfg)
	ro.Backing = "store"
	ro.ReadOnly = true
	ro.MergeOp = c.Opts.MergeOp
	c.Prog = append(c.Prog, Op{Kind: "roOps", O: &ro, N: r.Intn(6), M: r.Intn(7), Prog: nil})
	c.ROProg = prog
}

func hashDir(dir string) (map[string]string, error) {
	out := map[string]string{}
	ents, err := os.ReadDir(dir)
	if err != nil {
		return nil, err
	}
	for _, en := range ents {
		if en.IsDir() {
			out[en.Name()] = "directory"
			continue
		}
		b, err := os.ReadFile(filepath.Join(dir, en.Name()))
		if err != nil {
			return nil, err
		}
		out[en.Name()] = fmt.Sprintf("%d:%x", len(b), sha256.Sum256(b))
	}
	return out, nil
}

func diffDirs(a, b map[string]string) string {
	var names []string
	for n := range a {
		names = append(names, n)
	}
	for n := range b {
		if _, ok := a[n]; !ok {
			names = append(names, n)
		}
	}
	sort.Strings(names)
	for _, n := range names {
		av, aok := a[n]
		bv, bok := b[n]
		switch {
		case aok && !bok:
			return fmt.Sprintf("file %s was deleted", n)
		case !aok && bok:
			return fmt.Sprintf("file %s was created", n)
		case av != bv:
			return fmt.Sprintf("file %s was modified (%s -> %s)", n, strings.SplitN(av, ":", 2)[0], strings.SplitN(bv, ":", 2)[0])
		}
	}
	return ""
}

// readOnlyOps: phase 2 of a C18 case.  The store built by phase 1 is closed, a
// directory variant is derived from it (as left / crash image / junk added),
// and opened ReadOnly.
func (e *Exec) readOnlyOps(op Op) {
	e.closeAllHandlesIf(true)
	e.closeColl()
	e.closeStore()
	simrt.Quiesce(50000, 2)
	// directory variant
	img := newDisk()
	variant := "as-left"
	var junkDirs []string
	// need: the prefix the directory is known to hold (what the store had
	// exposed before it was closed; for a crash image the last round that had
	// completed before the crash point - process-kill model, operations in order)
	need := e.lb
	switch op.N {
	case 1, 2:
		// K-model crash image at a random trace position
		tr := e.fs.Trace
		if len(tr) > 0 {
			p := simrt.Choose(len(tr), "ro-crash-point")
			need = -1
			for i := 0; i < p; i++ {
				img.apply(&tr[i])
				if tr[i].Kind == "MARK" && tr[i].Mark == "round" {
					need = tr[i].J
				}
			}
			if tr[p].Kind == "WRITE" && tr[p].Len > 1 {
				t := 1 + simrt.Choose(tr[p].Len-1, "ro-tear")
				img.write(tr[p].File, tr[p].Off, tr[p].Data[:t])
			}
			variant = fmt.Sprintf("crash-image@%d", p)
		}
	default:
		for _, n := range e.fs.Listing() {
			if b, err := os.ReadFile(filepath.Join(e.fs.Dir, n)); err == nil {
				img.files[n] = b
			}
		}
	}
	if variant == "as-left" && len(img.files) == 0 {
		for _, n := range e.fs.Listing() {
			if b, err := os.ReadFile(filepath.Join(e.fs.Dir, n)); err == nil {
				img.files[n] = b
			}
		}
	}
	switch op.M {
	case 1:
		img.files["data-00000000000000ff.moss"] = []byte{} // zero-length newer file
		variant += "+empty-newer"
	case 2:
		hdr := []byte("moss-data-store:\n{\"Version\":4,\"CreatedAt\":\"x\",\"CreatedEndian\":\"little\"}\n")
		hdr = append(hdr, make([]byte, pageSize-len(hdr))...)
		for i := range hdr {
			if hdr[i] == 0 {
				hdr[i] = '\n'
			}
		}
		img.files["data-00000000000000fe.moss"] = hdr // complete header, no footer
		variant += "+header-only-newer"
	case 3:
		img.files["notes.txt"] = []byte("junk")
		img.files["data-zz.moss"] = []byte("junk")
		variant += "+foreign-names"
	case 4:
		// no usable data file at all: what is left are a truncated file and junk
		for n, b := range img.files {
			if len(b) > 100 {
				img.files[n] = b[:100]
			}
		}
		img.files["notes.txt"] = []byte("junk")
		variant += "+all-truncated"
	case 5:
		img = newDisk()
		variant = "empty-directory"
	case 6:
		// junk sub-directories named like data files (one of them like the newest)
		junkDirs = []string{"data-00000000000000fd.moss", "data-y.moss"}
		variant += "+junk-directories"
	}
	roDir := e.fs.Dir + "-ro"
	rwDir := e.fs.Dir + "-rw"
	if img.materialise(roDir) != nil || img.materialise(rwDir) != nil {
		return
	}
	for _, jd := range junkDirs {
		os.Mkdir(filepath.Join(roDir, jd), 0700)
		os.Mkdir(filepath.Join(rwDir, jd), 0700)
	}
	defer os.RemoveAll(roDir)
	defer os.RemoveAll(rwDir)
	nValid := 0
	for n := range img.files {
		if strings.HasPrefix(n, "data-") {
			nValid++
		}
	}
	if nValid >= 2 || strings.HasPrefix(variant, "crash") {
		e.probe("multi-section-compare")
	}
	e.probe("ro-variant-" + strings.SplitN(variant, "@", 2)[0])
	before, err := hashDir(roDir)
	if err != nil {
		return
	}
	// what a read-write open of a copy serves
	var expect *Node
	{
		sub := &Exec{c: e.c, hist: e.hist, out: &Outcome{Faults: map[string]int{}, Probes: map[string]int{}}, probes: e.probes,
			shapes: map[string]bool{}, noRoundChecks: true}
		sub.fs = NewFS(rwDir, nil)
		sub.fs.Quiet = true
		registerFS(sub.fs)
		o := *op.O
		o.ReadOnly = false
		so, spo := sub.storeOptions(o)
		st, coll, err := moss.OpenStoreCollection(rwDir, so, spo)
		if err == nil {
			ss, _ := coll.Snapshot()
			expect, _ = dumpSnapshot(ss)
			ss.Close()
			coll.Close()
			st.Close()
			simrt.Quiesce(20000, 0)
		}
		unregisterFS(sub.fs)
	}
	// the read-only open
	// now and then the application's OpenFile hook fails once during the
	// read-only open: the open may fail, or fall back to an older complete
	// file if there is one - but it must not report success with something
	// else, and the directory stays untouched as always
	rofs := NewFS(roDir, nil)
	if simrt.Chance(0.15, "ro-open-fault") {
		rofs.FailOpenAt = 1 + simrt.Choose(3, "ro-open-fault-at")
	}
	registerFS(rofs)
	defer unregisterFS(rofs)
	defer func() {
		for k, v := range rofs.Fired {
			e.fs.Fired["ro-"+k] += v
		}
	}()
	sub := &Exec{c: e.c, hist: NewHistory(), out: e.out, probes: map[string]bool{}, shapes: e.shapes, noRoundChecks: true}
	sub.fs = rofs
	defer func() {
		if sub.viol != nil && e.viol == nil {
			e.viol = sub.viol
			e.viol.Detail["variant"] = variant
		}
	}()
	so, spo := sub.storeOptions(*op.O)
	var st *moss.Store
	var coll moss.Collection
	if simrt.Chance(0.4, "ro-two-step-open") {
		// the two-step API: OpenStore, then Store.OpenCollection
		st, err = moss.OpenStore(roDir, so)
		if err == nil {
			coll, err = st.OpenCollection(so, spo)
			if err != nil {
				st.Close()
				st = nil
			}
		}
		e.probe("ro-two-step-open")
	} else {
		st, coll, err = moss.OpenStoreCollection(roDir, so, spo)
	}
	e.out.Checks++
	fail := func(class, format string, a ...interface{}) {
		e.failD(class, map[string]string{"symptom": class, "variant": variant}, "ReadOnly open of directory variant %q: %s", variant, fmt.Sprintf(format, a...))
	}
	if err == nil {
		ss, serr := coll.Snapshot()
		if serr == nil {
			got, derr := dumpSnapshot(ss)
			ss.Close()
			if derr != nil {
				fail("ro-content", "reading: %v", derr)
			}
			if rofs.FaultSeen > 0 && nValid >= 2 {
				// another data file may legitimately have been served
				e.probe("ro-open-fault-fallback-possible")
			} else if expect != nil && got.Canon() != expect.Canon() {
				fail("ro-content", "serves other content than a read-write open of a copy: %s", expect.Diff(got, ""))
			} else if rofs.FaultSeen == 0 && op.M != 4 && op.M != 5 {
				// ... and, whatever a read-write open would do: exactly the
				// persisted content, i.e. a prefix of the executed batches
				// that is not older than what the directory is known to hold
				J := e.hist.Match(got)
				if len(J) == 0 {
					fail("ro-content", "serves content that is no prefix of the executed batches: against the full reference: %s", e.hist.Last().Diff(got, ""))
				}
				if need >= 0 && Advance(need, J) < 0 {
					fail("ro-content", "serves prefix %v of the executed batches although the directory holds the completed round of prefix %d (an older data file was served?)", J, need)
				}
				e.probe("ro-content-prefix-checked")
			}
			sub.hist = NewHistory()
			sub.hist.ResetTo(got)
		}
		sub.store, sub.coll, sub.collOpen, sub.opts = st, coll, true, *op.O
		nb := 0
		limit := op.O.MaxPreMergerBatches
		if limit <= 0 {
			limit = 10
		}
		for _, p := range e.c.ROProg {
			switch p.Kind {
			case "batch":
				if nb+1 >= limit {
					continue // nothing drains a read-only collection
				}
				nb++
				sub.doBatch(p.B)
			case "verify":
				sub.checkColl("read-only")
			case "notify":
				coll.(interface {
					NotifyMerger(string, bool) error
				}).NotifyMerger(p.S, false)
			case "idle":
				simrt.Quiesce(int64(p.N), 0)
			case "persist":
				var higher moss.Snapshot
				if p.Flag {
					higher, _ = coll.Snapshot()
				}
				llss, perr := st.Persist(higher, moss.StorePersistOptions{CompactionConcern: moss.CompactionConcern(p.N)})
				if perr == nil && llss != nil {
					llss.Close()
				}
				if higher != nil {
					higher.Close()
				}
				e.probe("ro-direct-persist")
			}
		}
		coll.Close()
		if e.flag("postCloseRO") {
			sub.collOpen = false
			sub.postCloseCalls()
			e.probe("ro-post-close")
		}
		st.Close()
		simrt.Quiesce(20000, 2)
	} else if expect != nil {
		e.probe("ro-open-fails-rw-opens")
		if rofs.FaultSeen == 0 {
			// no injected failure, and a read-write open of a copy serves
			// content: the persisted content is there and must be served
			fail("ro-open-error", "the open fails (%v) although a read-write open of a copy of the directory succeeds", err)
		}
	} else if need > 0 && rofs.FaultSeen == 0 && op.M != 4 && op.M != 5 {
		// neither opens, although a persistence round had completed in this directory
		fail("ro-open-error", "the open fails (%v), and so does a read-write open of a copy, although the directory holds the completed round of prefix %d", err, need)
	}
	after, herr := hashDir(roDir)
	if herr != nil {
		fail("ro-dir-changed", "cannot list the directory afterwards: %v", herr)
	}
	if d := diffDirs(before, after); d != "" {
		fail("ro-dir-changed", "%s", d)
	}
	if rofs.mutating > 0 {
		var muts []string
		for _, t := range rofs.Trace {
			if t.Kind == "WRITE" || t.Kind == "TRUNCATE" || t.Kind == "REMOVE" || (t.Kind == "OPEN" && t.Flags&(os.O_WRONLY|os.O_RDWR|os.O_CREATE|os.O_TRUNC|os.O_APPEND) != 0) {
				muts = append(muts, t.String())
			}
		}
		fail("ro-mutating-op", "%d mutating file operations were issued: %v", rofs.mutating, lastN(muts, 4))
	}
	e.probe("bg-step-between-ops")
}

func (e *Exec) gaugeText() string {
	if !e.collOpen {
		return ""
	}
	st, err := e.coll.Stats()
	if err != nil || st == nil {
		return ""
	}
	return fmt.Sprintf("gauges ops=%d bytes=%d segs=%d (top %d mid %d base %d) othersEligible=%v", st.CurDirtyOps, st.CurDirtyBytes, st.CurDirtySegments,
		st.CurDirtyTopSegments, st.CurDirtyMidSegments, st.CurDirtyBaseSegments, simrt.OthersEligible())
}
