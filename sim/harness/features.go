package harness

import (
	"bytes"
	"fmt"
	"os"
	"sort"
	"strings"

	"github.com/couchbase/moss"
	"verifsim/simrt"
)

// ---------------------------------------------------------------------------
// long-lived handles (C02, C15)

type handle struct {
	kind   string
	ss     moss.Snapshot // the handle under test
	parent moss.Snapshot // kept-open parent of a child snapshot (may be nil)
	it     moss.Iterator
	want   *Node
	rest   []string // iterator: keys still to come, first = current
	closed bool
	opened int
	rewinds int // iterator: backward seeks after exhaustion so far
}

func (e *Exec) snapOpen(op Op) {
	h := &handle{kind: op.S, opened: e.opIdx}
	switch op.S {
	case "coll", "iter", "storeIter":
		var ss moss.Snapshot
		var err error
		if op.S == "storeIter" {
			if e.store == nil {
				return
			}
			simrt.NoPreempt(true)
			j := e.checkStore("store-snapshot")
			ss, err = e.store.Snapshot()
			simrt.NoPreempt(false)
			h.want = e.hist.Models[j].Clone()
		} else {
			if !e.collOpen {
				return
			}
			ss, err = e.coll.Snapshot()
			h.want = e.hist.Last().Clone()
		}
		if err != nil || ss == nil {
			e.fail("snapshot-error", "Snapshot: %v", err)
		}
		h.ss = ss
		if op.S != "coll" {
			it, err := ss.StartIterator(nil, nil, moss.IteratorOptions{})
			if err != nil {
				e.fail("iterator-error", "StartIterator: %v", err)
			}
			if it == nil {
				// a store without any segment hands out no iterator
				if len(h.want.KV) > 0 {
					e.failD("frozen-violated", map[string]string{"symptom": "missing", "where": "iterator"},
						"StartIterator returned a nil iterator, the snapshot holds %d live keys", len(h.want.KV))
				}
				ss.Close()
				return
			}
			h.it = it
			h.rest = h.want.SortedKeys()
			if op.Flag {
				// the iterator alone must keep its data alive ("in every
				// close order": the snapshot is closed first)
				ss.Close()
				h.ss = nil
				e.probe("iterator-outlives-snapshot")
			}
			for i := 0; i < op.N && len(h.rest) > 0; i++ {
				e.iterStep(h)
			}
		}
	case "child":
		if !e.collOpen {
			return
		}
		name := string(op.K)
		ps, err := e.coll.Snapshot()
		if err != nil {
			e.fail("snapshot-error", "Snapshot: %v", err)
		}
		wantChild, exists := e.hist.Last().Kids[name]
		cs, err := ps.ChildCollectionSnapshot(name)
		if err != nil {
			e.fail("snapshot-error", "ChildCollectionSnapshot(%q): %v", name, err)
		}
		if !exists {
			if cs != nil {
				e.failD("content-mismatch", map[string]string{"symptom": "child-extra", "where": "collection"},
					"ChildCollectionSnapshot(%q) is non-nil, the reference has no such child", name)
			}
			ps.Close()
			return
		}
		if cs == nil {
			e.failD("content-mismatch", map[string]string{"symptom": "child-missing", "where": "collection"},
				"ChildCollectionSnapshot(%q) is nil, the reference has that child", name)
		}
		h.ss = cs
		h.want = wantChild.Clone()
		if op.N&1 == 0 {
			h.parent = ps
		} else {
			ps.Close() // the child snapshot alone must keep its data alive
		}
		if op.Flag {
			// an iterator on the child collection's snapshot as the handle
			it, err := cs.StartIterator(nil, nil, moss.IteratorOptions{})
			if err != nil {
				e.fail("iterator-error", "StartIterator on child %q: %v", name, err)
			}
			if it == nil {
				if len(h.want.KV) > 0 {
					e.failD("frozen-violated", map[string]string{"symptom": "missing", "where": "iterator"},
						"StartIterator on child %q returned a nil iterator, the child holds %d live keys", name, len(h.want.KV))
				}
			} else {
				h.it = it
				h.rest = h.want.SortedKeys()
				if op.N&2 != 0 {
					cs.Close() // ... and it outlives the child snapshot
					h.ss = nil
					e.probe("iterator-outlives-snapshot")
				}
				e.probe("child-iterator-handle")
			}
		}
	case "store":
		if e.store == nil {
			return
		}
		simrt.NoPreempt(true)
		j := e.checkStore("store-snapshot")
		ss, err := e.store.Snapshot()
		simrt.NoPreempt(false)
		if err != nil || ss == nil {
			e.fail("snapshot-error", "Store.Snapshot: %v", err)
		}
		h.ss = ss
		h.want = e.hist.Models[j].Clone()
	default:
		return
	}
	e.handles = append(e.handles, h)
	e.probe("handle-open-" + op.S)
}

func (e *Exec) iterStep(h *handle) {
	k, v, err := h.it.Current()
	if len(h.rest) == 0 {
		if err != moss.ErrIteratorDone {
			e.failD("frozen-violated", map[string]string{"symptom": "extra", "where": "iterator"},
				"open iterator (since op %d) yields %q after its frozen content was exhausted (err=%v)", h.opened, string(k), err)
		}
		if keys := h.want.SortedKeys(); len(keys) > 0 && h.rewinds < 2 && simrt.Chance(0.5, "iter-rewind") {
			// an exhausted iterator is still open: seek back into the range
			// and walk it again
			h.rewinds++
			from := simrt.Choose(len(keys), "iter-rewind-to")
			err := h.it.SeekTo([]byte(keys[from]))
			if err != nil {
				e.failD("frozen-violated", map[string]string{"symptom": "missing", "where": "iterator"},
					"open iterator (since op %d): SeekTo(%q) after exhaustion: %v", h.opened, keys[from], err)
			}
			h.rest = keys[from:]
			e.probe("iterator-rewound-after-exhaustion")
		}
		return
	}
	if err != nil {
		e.failD("frozen-violated", map[string]string{"symptom": "missing", "where": "iterator"},
			"open iterator (since op %d): Current err=%v, frozen content still has %q", h.opened, err, h.rest[0])
	}
	if string(k) != h.rest[0] || !bytes.Equal(v, h.want.KV[h.rest[0]]) {
		e.failD("frozen-violated", map[string]string{"symptom": "stale", "where": "iterator"},
			"open iterator (since op %d) yields %q=%q, frozen content says %q=%q", h.opened, string(k), string(v), h.rest[0], string(h.want.KV[h.rest[0]]))
	}
	h.rest = h.rest[1:]
	err = h.it.Next()
	if len(h.rest) == 0 && err != moss.ErrIteratorDone {
		e.failD("frozen-violated", map[string]string{"symptom": "extra", "where": "iterator"},
			"open iterator (since op %d): Next err=%v at the end of its frozen content", h.opened, err)
	}
	if len(h.rest) > 0 && err != nil {
		e.failD("frozen-violated", map[string]string{"symptom": "missing", "where": "iterator"},
			"open iterator (since op %d): Next err=%v, frozen content still has %q", h.opened, err, h.rest[0])
	}
}

func (e *Exec) snapVerify(i int) {
	if i < 0 || i >= len(e.handles) || e.handles[i].closed {
		return
	}
	h := e.handles[i]
	e.out.Checks++
	if h.it != nil {
		e.iterStep(h)
		return
	}
	if h.kind == "store" && e.store != nil && simrt.Chance(0.3, "handle-previous") {
		// walking the history from a held store snapshot must not affect it
		if prev, err := e.store.SnapshotPrevious(h.ss); err == nil && prev != nil {
			prev.Close()
		}
		e.probe("handle-snapshot-previous")
	}
	if m := equalContent(h.ss, h.want, e.probeKeys(), ""); m != nil {
		e.failD("frozen-violated", map[string]string{"symptom": m.Kind, "where": "handle-" + h.kind, "path": m.Path, "key": m.Key},
			"%s snapshot opened at op %d no longer shows the content it was taken with: %s", h.kind, h.opened, m)
	}
	if e.opIdx > h.opened {
		e.probe("handle-reverified-later")
	}
}

func (e *Exec) snapClose(i int) {
	if i < 0 || i >= len(e.handles) || e.handles[i].closed {
		return
	}
	h := e.handles[i]
	if h.it != nil {
		for len(h.rest) > 0 {
			e.iterStep(h)
		}
		e.iterStep(h)
		h.it.Close()
	} else {
		e.snapVerify(i)
	}
	h.closed = true
	if h.ss != nil {
		h.ss.Close()
	}
	if h.parent != nil {
		h.parent.Close()
	}
}

func (e *Exec) closeAllHandlesIf(all bool) {
	if !all {
		return
	}
	for i := range e.handles {
		e.snapClose(i)
	}
}

// closeEverythingRandomOrder closes the open handles, the collection and the
// store (collection before store) in a drawn order; after the collection and
// after the store has been closed every handle that is still open must go on
// showing its frozen content (C02, C15: "even after collection close or store
// close", "in every close order").
func (e *Exec) closeEverythingRandomOrder() {
	phase := 0
	if !e.collOpen {
		phase = 1
	}
	// (not drawn: the README closes the collection first, and a store closed
	// under a running collection makes the next persistence round dereference
	// its nil footer - outside the documented use, no property covers it)
	storeFirst := false
	for {
		var open []int
		for i, h := range e.handles {
			if !h.closed {
				open = append(open, i)
			}
		}
		n := len(open)
		if phase < 2 {
			n++
		}
		if n == 0 {
			return
		}
		k := simrt.Choose(n, "close-order")
		if k < len(open) {
			e.snapClose(open[k])
			continue
		}
		phase++
		what := "collection"
		if (phase == 1) != storeFirst {
			e.closeColl()
		} else {
			if storeFirst {
				e.noRoundChecks = true // no store to look at from the round callback any more
			}
			e.closeStore()
			what = "store"
		}
		if storeFirst {
			e.probe("store-closed-before-collection")
		}
		simrt.Quiesce(20000, 2)
		if e.viol != nil {
			panic(abortRun{})
		}
		for i, h := range e.handles {
			if !h.closed {
				e.snapVerify(i)
				e.probe("handle-verified-after-" + what + "-close")
			}
		}
	}
}

func (e *Exec) closeHandlesRandomOrder() {
	var open []int
	for i, h := range e.handles {
		if !h.closed {
			open = append(open, i)
		}
	}
	for len(open) > 0 {
		k := simrt.Choose(len(open), "close-order")
		e.snapClose(open[k])
		open = append(open[:k], open[k+1:]...)
	}
}

// checkLeaks: once every handle, the collection and the store are closed the
// process holds no descriptor or mapping of the store directory, and the
// directory holds only the current data file (C15).
func (e *Exec) checkLeaks() {
	if !e.isStore() {
		return
	}
	e.out.Checks++
	dir := e.fs.Dir
	if ents, err := os.ReadDir("/proc/self/fd"); err == nil {
		for _, en := range ents {
			if t, err := os.Readlink("/proc/self/fd/" + en.Name()); err == nil && strings.HasPrefix(t, dir) {
				e.failD("leak", map[string]string{"symptom": "fd-leak"}, "file descriptor %s -> %s is still open after every handle, the collection and the store were closed", en.Name(), t)
			}
		}
	}
	if b, err := os.ReadFile("/proc/self/maps"); err == nil {
		for _, ln := range strings.Split(string(b), "\n") {
			if strings.Contains(ln, dir) {
				e.failD("leak", map[string]string{"symptom": "mmap-leak"}, "memory mapping still present after everything was closed: %s", strings.TrimSpace(ln))
			}
		}
	}
	e.checkDirectory("after closing everything")
}

func (e *Exec) checkDirectory(when string) {
	if e.opts.KeepFiles || e.fs.FaultSeen > 0 {
		return
	}
	var data []string
	for _, n := range e.fs.Listing() {
		if strings.HasPrefix(n, "data-") && strings.HasSuffix(n, ".moss") {
			data = append(data, n)
		}
	}
	if len(data) > 1 {
		e.failD("stale-files", map[string]string{"symptom": "stale-files"}, "directory holds %d data files %s: %v (superseded files must disappear once nothing references them)", len(data), when, data)
	}
	if len(data) == 0 && e.lb > 0 && e.lb < len(e.hist.Models) && e.hist.Models[e.lb].TotalKeys() > 0 {
		e.failD("live-file-removed", map[string]string{"symptom": "live-file-removed"}, "directory holds no data file %s although the store had exposed %d live keys (the current data file must stay)", when, e.hist.Models[e.lb].TotalKeys())
	}
}

// ---------------------------------------------------------------------------
// gauges (C20)

func (e *Exec) checkGauges() {
	if e.opts.Backing == "mem" || e.opts.ReadOnly {
		return
	}
	st, err := e.coll.Stats()
	if err != nil {
		e.fail("stats-error", "Stats: %v", err)
	}
	zero := st.CurDirtyOps == 0 && st.CurDirtyBytes == 0 && st.CurDirtySegments == 0
	simrt.Note("gauges", st.CurDirtyOps<<16|st.CurDirtySegments)
	if !zero {
		return
	}
	e.out.Checks++
	e.probe("gauges-zero-sampled")
	// The bound is read before the snapshot is taken (as in checkStore): the
	// persister's round callback may raise e.lb while this task is still
	// reading an older, legitimate snapshot; judging that older content
	// against the newer bound would make an ambiguous match look unambiguous.
	lb0 := e.lb
	content, ss, err := e.lowerContent()
	if err != nil {
		e.failD("store-read-error", map[string]string{"symptom": "error", "where": "store"}, "reading the lower level: %v", err)
	}
	if ss != nil {
		ss.Close()
	}
	n := e.hist.N()
	if content.Canon() != e.hist.Last().Canon() {
		d := e.hist.Last().Diff(content, "")
		J := e.hist.Match(content)
		if len(J) > 0 && e.hist.PendingStructuralOnly(J[len(J)-1]) {
			// Everything the lower level lacks are batches without key operations
			// (child collections created empty / deleted).  Reported at the
			// end of the run unless something else fails first, so that a
			// structural change that is *never* persisted (a different defect)
			// is not hidden behind this one.
			if e.deferred == nil {
				e.deferred = &Violation{Prop: e.c.Prop, Class: "gauges-zero-but-dirty", OpIdx: e.opIdx,
					Detail: e.detail(map[string]string{"symptom": "gauges-zero-but-dirty", "diff": d, "pendingStructuralOnly": "true"}),
					Msg:    fmt.Sprintf("CurDirtyOps/Bytes/Segments are all zero after %d batches, but the lower level does not hold them all: %s", n, d)}
			}
			return
		}
		e.failD("gauges-zero-but-dirty", map[string]string{"symptom": "gauges-zero-but-dirty", "diff": d},
			"CurDirtyOps/Bytes/Segments are all zero after %d batches, but the lower level does not hold them all: %s", n, d)
	}
	// (only when the content match is unambiguous: with equal-content models the
	// lower level may really be at an older prefix, which is the known
	// structural-batch case of KF1 rather than anything new)
	if e.store != nil && Advance(lb0, e.hist.Match(content)) == n && simrt.Chance(0.15, "gauge-reopen") {
		e.drained = true
		e.reopen(Op{})
		e.probe("gauges-zero-reopen")
	}
}

// gaugesSettle: once the lower level holds everything, the gauges reach zero.
func (e *Exec) gaugesSettle() {
	if !e.flag("gauges") || !e.collOpen {
		return
	}
	simrt.Fair(true)
	simrt.Quiesce(100000, 0)
	simrt.Fair(false)
	st, _ := e.coll.Stats()
	if st.CurDirtyOps != 0 || st.CurDirtyBytes != 0 || st.CurDirtySegments != 0 {
		e.failD("gauges-stuck", map[string]string{"symptom": "gauges-stuck"},
			"the lower level holds all %d batches and every background task is idle, yet the gauges stay at ops=%d bytes=%d segments=%d",
			e.hist.N(), st.CurDirtyOps, st.CurDirtyBytes, st.CurDirtySegments)
	}
}

// ---------------------------------------------------------------------------
// compaction shape (C07), evaluated in the persister task right after a round

func (e *Exec) storeStat(name string) uint64 {
	if e.store == nil {
		return 0
	}
	st, err := e.store.Stats()
	if err != nil {
		return 0
	}
	v, _ := st[name].(uint64)
	return v
}

func (e *Exec) checkCompactionShape() {}

func (e *Exec) afterRoundCompactionCheck(j int) {
	full := e.storeStat("total_compactions")
	part := e.storeStat("total_compactions_partial")
	if part > e.lastPartial {
		e.probe("partial-compaction")
		e.lastPartial = part
	}
	if full <= e.lastCompactions {
		return
	}
	e.lastCompactions = full
	e.probe("full-compaction")
	if !e.flag("compactShape") {
		return
	}
	ss, err := e.store.Snapshot()
	if err != nil || ss == nil {
		return
	}
	defer ss.Close()
	f, ok := ss.(*moss.Footer)
	if !ok {
		return
	}
	e.out.Checks++
	e.footerShape(f, e.hist.Models[j], "")
}

func (e *Exec) footerShape(f *moss.Footer, want *Node, path string) {
	if len(f.SegmentLocs) > 1 {
		e.failD("compaction-shape", map[string]string{"symptom": "many-segments", "path": path},
			"after a full compaction collection %q has %d segments (want at most 1)", path, len(f.SegmentLocs))
	}
	var sets, dels uint64
	for _, sl := range f.SegmentLocs {
		sets += sl.TotOpsSet
		dels += sl.TotOpsDel
	}
	if dels != 0 {
		e.failD("compaction-shape", map[string]string{"symptom": "deletions-kept", "path": path},
			"after a full compaction collection %q still stores %d deletion markers", path, dels)
	}
	if int(sets) != len(want.KV) {
		e.failD("compaction-shape", map[string]string{"symptom": "set-count", "path": path},
			"after a full compaction collection %q stores %d entries, the reference has %d live keys", path, sets, len(want.KV))
	}
	it, err := f.StartIterator(nil, nil, moss.IteratorOptions{IncludeDeletions: true})
	if err == nil && it != nil {
		seen := map[string]bool{}
		for {
			ex, k, _, err := it.CurrentEx()
			if err != nil {
				break
			}
			if ex.Operation != moss.OperationSet {
				it.Close()
				e.failD("compaction-shape", map[string]string{"symptom": "deletions-kept", "path": path},
					"after a full compaction an IncludeDeletions iteration of %q shows a non-Set entry for key %q (op %x)", path, string(k), ex.Operation)
			}
			if seen[string(k)] {
				it.Close()
				e.failD("compaction-shape", map[string]string{"symptom": "duplicate-key", "path": path},
					"after a full compaction key %q of %q is stored more than once", string(k), path)
			}
			seen[string(k)] = true
			if it.Next() != nil {
				break
			}
		}
		it.Close()
	}
	for _, name := range want.KidNames() {
		cf, ok := f.ChildFooters[name]
		if !ok {
			continue // content equality is judged elsewhere
		}
		e.footerShape(cf, want.Kids[name], path+"/"+name)
	}
}

// ---------------------------------------------------------------------------
// history walk and revert (C12)

func (e *Exec) recordRound() {
	if e.store == nil {
		return
	}
	persists := e.storeStat("total_persists")
	full := e.storeStat("total_compactions")
	part := e.storeStat("total_compactions_partial")
	content, ss, err := e.lowerContent()
	if err != nil {
		return
	}
	if ss != nil {
		ss.Close()
	}
	switch {
	case full+part > e.histCompactions:
		e.history = []*Node{content}
	case persists > e.histPersists:
		e.history = append(e.history, content)
	}
	e.histCompactions = full + part
	e.histPersists = persists
}

func (e *Exec) settle() {
	before := simrt.Steps()
	simrt.Quiesce(50000, 0)
	if simrt.Steps() > before {
		e.probe("bg-step-between-ops")
	}
	if e.viol != nil {
		panic(abortRun{})
	}
}

func (e *Exec) doPrevious(op Op) {
	if e.store == nil || !e.flag("history") || len(e.history) == 0 {
		return
	}
	// The recorded rounds and the store snapshot must belong together: a
	// round that completes between the two (idle waker -> empty round ->
	// compaction) would make the walk look too short or too long.  Take the
	// pair, and retake it while the store's round counters moved or are
	// ahead of what the round callback has recorded so far.
	var H []*Node
	var ss moss.Snapshot
	var err error
	for try := 0; ; try++ {
		e.settle()
		p0, c0 := e.storeStat("total_persists"), e.storeStat("total_compactions")+e.storeStat("total_compactions_partial")
		inSync := p0 == e.histPersists && c0 == e.histCompactions
		H = append([]*Node{}, e.history...)
		ss, err = e.store.Snapshot()
		p1, c1 := e.storeStat("total_persists"), e.storeStat("total_compactions")+e.storeStat("total_compactions_partial")
		if inSync && p1 == p0 && c1 == c0 && p1 == e.histPersists && c1 == e.histCompactions && len(H) == len(e.history) {
			break
		}
		if ss != nil {
			ss.Close()
		}
		if try >= 20 {
			e.probe("history-never-settled")
			return
		}
		e.probe("history-pair-retaken")
	}
	if err != nil || ss == nil {
		e.fail("snapshot-error", "Store.Snapshot: %v", err)
	}
	e.out.Checks++
	cur := ss
	for i := 0; i <= op.N+len(H); i++ {
		idx := len(H) - 1 - i
		content, err := dumpSnapshot(cur)
		if err != nil {
			cur.Close()
			e.failD("history-mismatch", map[string]string{"symptom": "error"}, "reading the snapshot %d steps back: %v", i, err)
		}
		if idx < 0 {
			cur.Close()
			e.failD("history-mismatch", map[string]string{"symptom": "extra"},
				"SnapshotPrevious yields a snapshot %d steps back, but only %d persistence rounds happened since the last compaction", i, len(H))
		}
		if content.Canon() != H[idx].Canon() {
			d := H[idx].Diff(content, "")
			cur.Close()
			e.failD("history-mismatch", map[string]string{"symptom": "stale", "diff": d},
				"snapshot %d steps back differs from what the store exposed after that round: %s", i, d)
		}
		if i >= op.N && idx > 0 && i < op.N+1 {
			// walked as far as asked; still check the end of the chain below
		}
		prev, err := e.store.SnapshotPrevious(cur)
		cur.Close()
		if err != nil {
			e.failD("history-mismatch", map[string]string{"symptom": "error"}, "SnapshotPrevious %d steps back: %v", i, err)
		}
		if prev == nil {
			if idx > 0 {
				e.failD("history-mismatch", map[string]string{"symptom": "missing", "reverted": fmt.Sprint(e.revertedOnce)},
					"SnapshotPrevious returns nil %d steps back although %d older rounds since the last compaction exist", i, idx)
			}
			e.probe("history-walked-to-end")
			return
		}
		cur = prev
	}
	cur.Close()
}

func (e *Exec) doRevert(op Op) {
	if e.store == nil || !e.flag("history") || len(e.history) == 0 {
		return
	}
	e.settle()
	e.closeAllHandlesIf(true)
	e.closeColl()
	e.settle()
	// a revert that itself meets an I/O error is not judged: the faults of the
	// plan that have not fired by now are dropped
	e.fs.StopFaults()
	H := e.history
	d := op.N
	if d > len(H)-1 {
		d = len(H) - 1
	}
	ss, err := e.store.Snapshot()
	if err != nil || ss == nil {
		e.fail("snapshot-error", "Store.Snapshot: %v", err)
	}
	cur := ss
	for i := 0; i < d; i++ {
		prev, err := e.store.SnapshotPrevious(cur)
		cur.Close()
		if err != nil || prev == nil {
			e.failD("history-mismatch", map[string]string{"symptom": "missing", "reverted": fmt.Sprint(e.revertedOnce)},
				"SnapshotPrevious returns (%v, %v) %d steps back although %d rounds exist", prev, err, i, len(H))
		}
		cur = prev
	}
	target := H[len(H)-1-d]
	err = e.store.SnapshotRevert(cur)
	cur.Close()
	e.out.Checks++
	if err != nil {
		e.failD("revert-error", map[string]string{"symptom": "revert-error"},
			"SnapshotRevert to a snapshot %d steps back in the current file fails: %v", d, err)
	}
	e.revertedOnce = true
	e.history = append(e.history, target)
	e.histPersists = e.storeStat("total_persists")
	// the reverted content is now the store's content
	after, ss2, err := e.lowerContent()
	if err != nil {
		e.fail("store-read-error", "reading the store after revert: %v", err)
	}
	if ss2 != nil {
		ss2.Close()
	}
	if after.Canon() != target.Canon() {
		e.failD("revert-mismatch", map[string]string{"symptom": "stale", "diff": target.Diff(after, "")},
			"after SnapshotRevert the store's snapshot differs from the revert target: %s", target.Diff(after, ""))
	}
	e.hist.ResetTo(target)
	e.lb = e.hist.N()
	e.drained = true
	e.fs.MarkOp("round", e.lb, true) // SnapshotRevert always syncs
	e.probe("revert-done")
	if op.Flag {
		e.closeStore()
		e.settle()
		e.open(e.opts, false)
		keep := e.history
		hp := e.histPersists
		e.afterReopen(true, true, "reopen after revert")
		e.history, e.histPersists = keep, 0
		_ = hp
		e.histCompactions = 0
		e.histPersists = 0
	} else {
		so, spo := e.storeOptions(e.opts)
		c, err := e.store.OpenCollection(so, spo)
		if err != nil {
			e.fail("open-error", "Store.OpenCollection after revert: %v", err)
		}
		e.coll = c
		e.collOpen = true
	}
	e.checkColl("after-revert")
}

// ---------------------------------------------------------------------------
// iterator programs (C09)

func inRange(k string, lo, hi []byte) bool {
	if lo != nil && k < string(lo) {
		return false
	}
	if hi != nil && k >= string(hi) {
		return false
	}
	return true
}

func (e *Exec) iterProg(op Op) {
	var ss moss.Snapshot
	var want *Node
	var err error
	if op.S == "lower" && e.store != nil {
		simrt.NoPreempt(true)
		j := e.checkStore("iter-prog")
		ss, err = e.store.Snapshot()
		simrt.NoPreempt(false)
		want = e.hist.Models[j]
	} else {
		if !e.collOpen {
			return
		}
		e.noteShape()
		ss, err = e.coll.Snapshot()
		want = e.hist.Last()
	}
	if err != nil || ss == nil {
		e.fail("snapshot-error", "Snapshot: %v", err)
	}
	defer ss.Close()
	e.runIterProgram(ss, want, op)
}

// snapIter runs an iterator program (with backward seeks) on a long-lived
// snapshot handle against its frozen content; the handle stays open.
func (e *Exec) snapIter(op Op) {
	if op.N < 0 || op.N >= len(e.handles) {
		return
	}
	h := e.handles[op.N]
	if h.closed || h.it != nil || h.ss == nil {
		return
	}
	e.runIterProgram(h.ss, h.want, op)
	e.probe("handle-iterator-program")
}

func (e *Exec) runIterProgram(ss moss.Snapshot, want *Node, op Op) {
	lo, hi := op.K, op.K2
	var keys []string
	for _, k := range want.SortedKeys() {
		if inRange(k, lo, hi) {
			keys = append(keys, k)
		}
	}
	it, err := ss.StartIterator(lo, hi, moss.IteratorOptions{})
	if err != nil {
		e.failD("iterator-mismatch", map[string]string{"symptom": "error"}, "StartIterator(%q,%q): %v", lo, hi, err)
	}
	if it == nil {
		if len(keys) > 0 {
			e.failD("iterator-mismatch", map[string]string{"symptom": "missing"}, "StartIterator(%q,%q) returned a nil iterator, range holds %d live keys", lo, hi, len(keys))
		}
		return
	}
	defer it.Close()
	e.out.Checks++
	pos := 0
	desc := fmt.Sprintf("iterator [%s,%s)", boundStr(lo), boundStr(hi))
	check := func(after string) {
		k, v, err := it.Current()
		if pos >= len(keys) {
			if err != moss.ErrIteratorDone {
				e.failD("iterator-mismatch", map[string]string{"symptom": "extra", "after": after},
					"%s after %s: Current = (%q,%q,%v), want ErrIteratorDone", desc, after, string(k), string(v), err)
			}
			return
		}
		if err != nil {
			e.failD("iterator-mismatch", map[string]string{"symptom": "missing", "after": after},
				"%s after %s: Current err=%v, want key %q", desc, after, err, keys[pos])
		}
		if string(k) != keys[pos] {
			sym := "wrong-key"
			e.failD("iterator-mismatch", map[string]string{"symptom": sym, "after": after},
				"%s after %s: positioned on %q, want %q", desc, after, string(k), keys[pos])
		}
		if m := cmpVal("", keys[pos], want.KV[keys[pos]], true, v, "iterator"); m != nil {
			e.failD("iterator-mismatch", map[string]string{"symptom": m.Kind, "after": after}, "%s after %s: %s", desc, after, m)
		}
	}
	check("start")
	for _, st := range op.Prog {
		switch st.Kind {
		case "next":
			err := it.Next()
			if pos < len(keys) {
				pos++
			}
			wantDone := pos >= len(keys)
			if wantDone != (err == moss.ErrIteratorDone) || (err != nil && err != moss.ErrIteratorDone) {
				e.failD("iterator-mismatch", map[string]string{"symptom": "next-result", "after": "next"},
					"%s: Next returned %v at position %d of %d", desc, err, pos, len(keys))
			}
			check("next")
		case "seek":
			x := st.K
			err := it.SeekTo(x)
			eff := string(x)
			if lo != nil && eff < string(lo) {
				eff = string(lo)
			}
			pos = sort.SearchStrings(keys, eff)
			wantDone := pos >= len(keys)
			if wantDone != (err == moss.ErrIteratorDone) || (err != nil && err != moss.ErrIteratorDone) {
				e.failD("iterator-mismatch", map[string]string{"symptom": "seek-result", "after": "seek"},
					"%s: SeekTo(%q) returned %v, want done=%v (target index %d of %d)", desc, string(x), err, wantDone, pos, len(keys))
			}
			check(fmt.Sprintf("SeekTo(%q)", string(x)))
			e.probe("iter-seek")
		case "current":
			check("current")
		}
	}
}

func boundStr(b []byte) string {
	if b == nil {
		return "nil"
	}
	return fmt.Sprintf("%q", string(b))
}
