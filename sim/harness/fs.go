package harness

import (
	"fmt"
	"io"
	"os"
	"path/filepath"
	"sort"
	"syscall"

	"github.com/couchbase/moss"
	"verifsim/simrt"
)

// FileOp is one recorded operation of the file-op trace.
type FileOp struct {
	Kind  string `json:"kind"` // OPEN WRITE SYNC TRUNCATE CLOSE STAT READ REMOVE READDIR MARK
	File  string `json:"file,omitempty"`
	Off   int64  `json:"off,omitempty"`
	Data  []byte `json:"-"`
	Len   int    `json:"len,omitempty"`
	Flags int    `json:"flags,omitempty"`
	Task  string `json:"task,omitempty"`
	Err   string `json:"err,omitempty"`
	Fault string `json:"fault,omitempty"`
	// MARK fields
	Mark   string `json:"mark,omitempty"`
	J      int    `json:"j,omitempty"`
	Synced bool   `json:"synced,omitempty"`
	Step   int64  `json:"step,omitempty"`
}

// harness-side scheduling-point ids (negative: not in the rewriter's table)
const (
	siteFileWrite = -20 - iota
	siteFileSync
	siteFileStat
	siteFileRead
	siteFileClose
	siteFileOpen
	siteFileTrunc
	siteCallback
	siteOracle
)

// FS is the simulated disk: a real tmpfs directory behind moss's OpenFile
// seam, with every operation recorded and optionally failed.
type FS struct {
	Dir   string
	Trace []FileOp

	faults      []Fault
	eligible    int // counter over fault-eligible operations
	Fired       map[string]int
	enospc      bool
	enospcLeft  int
	active      *Fault // persistent / burst fault in progress
	activeLeft  int
	FaultSeen   int // number of injected errors so far
	lastFaultOp int

	Eligible []string // class of every fault-eligible operation, in order

	mutating int // count of mutating operations (C18)
	open     map[*simFile]bool
	Quiet    bool // no recording (post-run verification reopen)
	NoData   bool // record writes without their payload
	// FailOpenAt > 0: the n-th OpenFile call fails once, whoever makes it
	// (read-only opens are made by the driver, which fault() leaves alone)
	FailOpenAt int
	opens      int
	null       *os.File // descriptor handed out by an injected mmap-fail
}

// Cleanup releases what the simulated disk itself holds.
//
//go:norace
func (fs *FS) Cleanup() {
	if fs.null != nil {
		fs.null.Close()
		fs.null = nil
	}
}

//go:norace
func NewFS(dir string, faults []Fault) *FS {
	return &FS{Dir: dir, faults: faults, Fired: map[string]int{}, open: map[*simFile]bool{}}
}

//go:norace
func (fs *FS) rec(op FileOp) {
	if fs.Quiet {
		return
	}
	if t := simrt.Cur(); t != nil {
		op.Task = t.Kind
	}
	op.Step = simrt.Steps()
	fs.Trace = append(fs.Trace, op)
}

// MarkOp appends a harness MARK to the trace.
//
//go:norace
func (fs *FS) MarkOp(mark string, j int, synced bool) {
	fs.rec(FileOp{Kind: "MARK", Mark: mark, J: j, Synced: synced})
}

// fault decides whether the fault-eligible operation of the given class fails.
// class: write | sync | stat | open | remove | readdir
//
//go:norace
func (fs *FS) fault(class string) *Fault {
	if fs.Quiet {
		return nil
	}
	if t := simrt.Cur(); t != nil && t.Driver {
		// Faults are injected into persistence and compaction work, not into
		// the harness's own reopen/verification calls.
		return nil
	}
	idx := fs.eligible
	fs.eligible++
	fs.Eligible = append(fs.Eligible, class)
	if len(fs.faults) == 0 && fs.active == nil {
		return nil
	}
	if fs.active != nil {
		f := fs.active
		if (f.Count < 0 && f.Until > 0 && idx >= f.Until) || (f.Count >= 0 && fs.activeLeft <= 0) {
			fs.active = nil
		} else if faultClass(f.Kind) == class || f.Kind == "any" {
			if f.Count >= 0 {
				fs.activeLeft--
			}
			return f
		}
	}
	for i := range fs.faults {
		f := &fs.faults[i]
		if f.At != idx {
			continue
		}
		k := f.Kind
		if faultClass(k) != class {
			// plan entry addresses another class of operation at this index:
			// re-map onto an applicable kind so that every index is usable.
			continue
		}
		if f.Count > 1 || f.Count < 0 {
			fs.active = f
			fs.activeLeft = f.Count - 1
		}
		return f
	}
	return nil
}

//go:norace
func faultClass(kind string) string {
	switch kind {
	case "write-eio", "write-short", "write-enospc", "write-short-noerr":
		return "write"
	case "sync-eio":
		return "sync"
	case "stat-eio":
		return "stat"
	case "open-eio":
		return "open"
	case "remove-eio":
		return "remove"
	case "readdir-eio":
		return "readdir"
	case "mmap-fail":
		return "osfile"
	}
	return kind
}

//go:norace
func (fs *FS) fired(kind string) {
	fs.Fired[kind]++
	fs.FaultSeen++
	fs.lastFaultOp = len(fs.Trace)
	simrt.Note("fault:"+kind, uint64(fs.eligible))
}

// FaultsPending reports whether any planned fault can still fire.
//
//go:norace
func (fs *FS) FaultsPending() bool {
	if fs.active != nil {
		return true
	}
	for _, f := range fs.faults {
		if f.At >= fs.eligible {
			return true
		}
	}
	return false
}

// StopFaults drops the remaining fault plan ("faults stop now").
//
//go:norace
func (fs *FS) StopFaults() {
	fs.faults = nil
	fs.active = nil
	fs.enospc = false
}

type simFile struct {
	fs     *FS
	f      *os.File
	name   string
	closed bool
}

var errEIO = &os.PathError{Op: "sim", Path: "", Err: syscall.EIO}
var errENOSPC = &os.PathError{Op: "sim", Path: "", Err: syscall.ENOSPC}

// OpenFile is the moss.OpenFile implementation.
//
//go:norace
func (fs *FS) OpenFile(name string, flag int, perm os.FileMode) (moss.File, error) {
	simrt.Yield(siteFileOpen)
	base := filepath.Base(name)
	mut := flag&(os.O_CREATE|os.O_TRUNC|os.O_WRONLY|os.O_RDWR|os.O_APPEND) != 0
	fs.opens++
	if fs.FailOpenAt > 0 && fs.opens == fs.FailOpenAt {
		fs.FaultSeen++
		fs.Fired["open-eio"]++
		fs.rec(FileOp{Kind: "OPEN", File: base, Flags: flag, Err: "EIO", Fault: "open-eio"})
		return nil, errEIO
	}
	if flag&(os.O_CREATE|os.O_TRUNC) != 0 {
		if f := fs.fault("open"); f != nil {
			fs.fired(f.Kind)
			fs.rec(FileOp{Kind: "OPEN", File: base, Flags: flag, Err: "EIO", Fault: f.Kind})
			return nil, errEIO
		}
	}
	osf, err := os.OpenFile(name, flag, perm)
	op := FileOp{Kind: "OPEN", File: base, Flags: flag}
	if err != nil {
		op.Err = err.Error()
		fs.rec(op)
		return nil, err
	}
	if mut {
		fs.mutating++
	}
	fs.rec(op)
	sf := &simFile{fs: fs, f: osf, name: base}
	fs.open[sf] = true
	return sf, nil
}

//go:norace
func (f *simFile) OsFile() *os.File {
	// moss asks for the descriptor to Stat and mmap a freshly written segment
	// (doLoadSegments).  Fault kind mmap-fail: the mapping cannot be set up -
	// the load sees a descriptor of an empty file, finds it too short for
	// the segment and fails; nothing is ever read or mapped through it.
	if flt := f.fs.fault("osfile"); flt != nil {
		f.fs.rec(FileOp{Kind: "OSFILE", File: f.name, Err: "ENOMEM", Fault: "mmap-fail"})
		f.fs.fired("mmap-fail")
		if f.fs.null == nil {
			f.fs.null, _ = os.Open("/dev/null")
		}
		if f.fs.null != nil {
			return f.fs.null
		}
	}
	return f.f
}

//go:norace
func (f *simFile) ReadAt(p []byte, off int64) (int, error) {
	simrt.Yield(siteFileRead)
	n, err := f.f.ReadAt(p, off)
	return n, err
}

//go:norace
func (f *simFile) WriteAt(p []byte, off int64) (int, error) {
	simrt.Yield(siteFileWrite)
	fs := f.fs
	fs.mutating++
	if fs.enospc && fs.enospcLeft <= 0 {
		fs.enospc = false // space was freed
	}
	if fs.enospc {
		// disk full: extending writes fail until space is freed
		if fi, err := f.f.Stat(); err == nil && off+int64(len(p)) > fi.Size() {
			fs.enospcLeft--
			fs.fired("write-enospc-cont")
			fs.rec(FileOp{Kind: "WRITE", File: f.name, Off: off, Len: 0, Err: "ENOSPC", Fault: "write-enospc"})
			return 0, errENOSPC
		}
	}
	if flt := fs.fault("write"); flt != nil {
		fs.fired(flt.Kind)
		switch flt.Kind {
		case "write-eio":
			fs.rec(FileOp{Kind: "WRITE", File: f.name, Off: off, Len: 0, Err: "EIO", Fault: flt.Kind})
			return 0, errEIO
		default: // write-short, write-enospc: a prefix really reaches the file
			n := 0
			if len(p) > 0 {
				n = len(p) * flt.Frac / 1000
				if n >= len(p) {
					n = len(p) - 1
				}
			}
			if n > 0 {
				f.f.WriteAt(p[:n], off)
			}
			e := error(io.ErrShortWrite)
			es := "short"
			if flt.Kind == "write-short-noerr" {
				// a File whose WriteAt reports a short count without an error
				// (outside io.WriterAt's contract, but moss checks the count)
				e, es = nil, "short-noerr"
			}
			if flt.Kind == "write-enospc" {
				fs.enospc = true
				fs.enospcLeft = 4 + flt.Frac%20
				e, es = errENOSPC, "ENOSPC"
			}
			fs.rec(FileOp{Kind: "WRITE", File: f.name, Off: off, Data: append([]byte{}, p[:n]...), Len: n, Err: es, Fault: flt.Kind})
			return n, e
		}
	}
	n, err := f.f.WriteAt(p, off)
	op := FileOp{Kind: "WRITE", File: f.name, Off: off, Len: n}
	if !fs.NoData {
		op.Data = append([]byte{}, p[:n]...)
	}
	if err != nil {
		op.Err = err.Error()
	}
	fs.rec(op)
	return n, err
}

//go:norace
func (f *simFile) Sync() error {
	simrt.Yield(siteFileSync)
	fs := f.fs
	if flt := fs.fault("sync"); flt != nil {
		fs.fired(flt.Kind)
		fs.rec(FileOp{Kind: "SYNC", File: f.name, Err: "EIO", Fault: flt.Kind})
		return errEIO
	}
	fs.rec(FileOp{Kind: "SYNC", File: f.name})
	return nil // tmpfs: durability is modelled from the trace
}

//go:norace
func (f *simFile) Stat() (os.FileInfo, error) {
	simrt.Yield(siteFileStat)
	fs := f.fs
	if flt := fs.fault("stat"); flt != nil {
		fs.fired(flt.Kind)
		fs.rec(FileOp{Kind: "STAT", File: f.name, Err: "EIO", Fault: flt.Kind})
		return nil, errEIO
	}
	return f.f.Stat()
}

//go:norace
func (f *simFile) Truncate(size int64) error {
	simrt.Yield(siteFileTrunc)
	f.fs.mutating++
	err := f.f.Truncate(size)
	f.fs.rec(FileOp{Kind: "TRUNCATE", File: f.name, Off: size})
	return err
}

//go:norace
func (f *simFile) Close() error {
	simrt.Yield(siteFileClose)
	f.fs.rec(FileOp{Kind: "CLOSE", File: f.name})
	f.closed = true
	delete(f.fs.open, f)
	return f.f.Close()
}

var fsRegistry []*FS

//go:norace
func registerFS(fs *FS) {
	fsRegistry = append(fsRegistry, fs)
	simrt.Hooks = dispatchHooks
}

//go:norace
func unregisterFS(fs *FS) {
	for i, f := range fsRegistry {
		if f == fs {
			fsRegistry = append(fsRegistry[:i], fsRegistry[i+1:]...)
			break
		}
	}
}

//go:norace
func fsFor(path string) *FS {
	d := filepath.Clean(path)
	for _, f := range fsRegistry {
		if d == f.Dir || filepath.Dir(d) == f.Dir {
			return f
		}
	}
	return nil
}

var dispatchHooks = simrt.OSHooks{
	Remove: func(name string) error {
		if f := fsFor(name); f != nil {
			return f.Hooks().Remove(name)
		}
		return os.Remove(name)
	},
	ReadDir: func(name string) ([]os.FileInfo, error) {
		if f := fsFor(name); f != nil {
			return f.Hooks().ReadDir(name)
		}
		return (&FS{Quiet: true, Fired: map[string]int{}}).Hooks().ReadDir(name)
	},
	Open: func(name string) (*os.File, error) { return os.Open(name) },
}

// Hooks returns the directory-operation hooks for simrt.
//
//go:norace
func (fs *FS) Hooks() simrt.OSHooks {
	return simrt.OSHooks{
		Remove: func(name string) error {
			base := filepath.Base(name)
			if flt := fs.fault("remove"); flt != nil {
				fs.fired(flt.Kind)
				fs.rec(FileOp{Kind: "REMOVE", File: base, Err: "EIO", Fault: flt.Kind})
				return errEIO
			}
			fs.mutating++
			err := os.Remove(name)
			op := FileOp{Kind: "REMOVE", File: base}
			if err != nil {
				op.Err = err.Error()
			}
			fs.rec(op)
			return err
		},
		ReadDir: func(name string) ([]os.FileInfo, error) {
			if flt := fs.fault("readdir"); flt != nil {
				fs.fired(flt.Kind)
				fs.rec(FileOp{Kind: "READDIR", Err: "EIO", Fault: flt.Kind})
				return nil, errEIO
			}
			ents, err := os.ReadDir(name)
			if err != nil {
				return nil, err
			}
			out := make([]os.FileInfo, 0, len(ents))
			for _, e := range ents {
				fi, err := e.Info()
				if err != nil {
					return nil, err
				}
				out = append(out, fi)
			}
			fs.rec(FileOp{Kind: "READDIR"})
			return out, nil
		},
		Open: func(name string) (*os.File, error) { return os.Open(name) },
	}
}

// Listing returns the sorted file names of the directory.
//
//go:norace
func (fs *FS) Listing() []string {
	ents, _ := os.ReadDir(fs.Dir)
	var out []string
	for _, e := range ents {
		out = append(out, e.Name())
	}
	sort.Strings(out)
	return out
}

// OpenHandles lists files opened through the FS and not closed.
//
//go:norace
func (fs *FS) OpenHandles() []string {
	var out []string
	for f := range fs.open {
		out = append(out, f.name)
	}
	sort.Strings(out)
	return out
}

//go:norace
func (op FileOp) String() string {
	switch op.Kind {
	case "WRITE":
		return fmt.Sprintf("WRITE %s @%d +%d %s", op.File, op.Off, op.Len, op.Err)
	case "MARK":
		return fmt.Sprintf("MARK %s j=%d synced=%v", op.Mark, op.J, op.Synced)
	}
	return fmt.Sprintf("%s %s %s", op.Kind, op.File, op.Err)
}
