package harness

import (
	"fmt"

	"verifsim/simrt"
)

// genCfg parameterises the single-driver workload generator.
type genCfg struct {
	backings   []string // drawn uniformly
	maxOps     int
	kids       float64 // probability that the run uses child collections
	merges     float64 // probability that the run uses Merge
	reopen     float64 // weight of reopen ops (store only)
	weirdKeys  float64 // probability of the byte-class key pool
	concerns   []int
	flags      []string
	verifyW    int
	drainW     int
	idleW      int
	notifyW    int
	clockW     int
	batchW     int
	snapW      int    // snapshot handle ops (C02/C15)
	iterW      int    // iterator programs (C09)
	histW      int    // previous/revert (C12)
	faults     string // "", "io", "llu"
	alloc      float64
	bigVals    float64
	bigKV      float64 // boundary-length key/value probes (C19)
	maxValue   bool    // ... including a value of 2^28-1 bytes (thorough tier)
	partial    float64 // probability of a case shaped for partial (same-file) compactions
	longHist   float64 // probability of a long uncompacted history (footer larger than a page)
	getErrW    int     // reads that fail because the merge operator refuses
	bgRefuseW  int     // the operator refuses the next merge of a background task
	idle       float64 // probability that the idle merger is enabled
	burst      float64 // probability of an ingest burst: the merger is held up (slow OnEvent callback) while several batches pile up
	stallW     int     // weight of the stallMerger op among the random ops
	wide       float64 // probability of batches of several hundred keys (the kvs array of a segment outgrows a page)
	tinyDirty  float64
	finalClose bool
}

// Gen builds the case for (prop, seed, index, tier).  Everything is drawn from
// one PRNG seeded with Mix(seed, prop, index).
func Gen(prop string, seed uint64, index int, tier string) *Case {
	h := uint64(0)
	for _, ch := range prop {
		h = h*131 + uint64(ch)
	}
	r := simrt.NewRand(simrt.Mix(simrt.Mix(seed, h), uint64(index)))
	c := &Case{Prop: prop, Index: index, Seed: seed, SchedSeed: r.Uint64(), Flags: map[string]bool{}}
	c.MaxSteps = 200000
	if tier == "thorough" {
		c.MaxSteps = 600000
	}
	switch prop {
	case "C03", "C16", "C17":
		if prop == "C16" && r.Chance(0.08) {
			// Close is final for a read-only collection, too: a store is built,
			// reopened ReadOnly, read, closed, and the post-Close contract checked
			genReadOnly(c, r, tier)
			c.Flags["postCloseRO"] = true
			break
		}
		genMulti(c, r, tier)
	case "C05":
		genCrash(c, r, tier)
	case "C06":
		genFault(c, r, tier)
	case "C18":
		genReadOnly(c, r, tier)
	default:
		cfg := propCfg(prop)
		if tier == "thorough" {
			cfg.maxOps = cfg.maxOps * 5 / 2
			c.Flags["tier-thorough"] = true
			cfg.maxValue = true
			cfg.bigKV *= 3
		}
		genSingle(c, r, cfg)
	}
	return c
}

func propCfg(prop string) genCfg {
	base := genCfg{backings: []string{"mem", "store", "store", "mapll"}, maxOps: 30, concerns: []int{0, 1, 2},
		batchW: 50, verifyW: 12, drainW: 4, idleW: 16, notifyW: 6, clockW: 3, idle: 0.2, tinyDirty: 0.15, burst: 0.12, stallW: 2, wide: 0.04}
	switch prop {
	case "C01":
		base.flags = []string{"verifyEach", "finalVerify"}
		base.reopen = 3
		base.weirdKeys = 0.3
	case "C02":
		base.flags = []string{"snapEach", "finalVerify"}
		base.backings = []string{"mem", "store", "store", "store"}
		base.snapW = 25
		base.kids = 0.3
		base.merges = 0.4
		base.getErrW = 5
		base.merges = 0.2
		base.concerns = []int{0, 1, 2, 2}
		// failed merger cycles (refusing operator) and failed rounds (transient
		// I/O faults, also in partial compactions) are later steps like any
		// other: an open snapshot must not notice them
		base.bgRefuseW = 4
		base.faults = "io-light"
		base.partial = 0.15
	case "C04":
		base.backings = []string{"store", "store", "store", "direct"}
		base.flags = []string{"storeEach", "finalReopen", "finalVerify"}
		base.reopen = 8
		base.kids = 0.3
		base.weirdKeys = 0.3
		base.drainW = 8
		base.bigVals = 0.4
		base.partial = 0.15
		base.longHist = 0.03
	case "C07":
		base.backings = []string{"store", "store", "store", "direct"}
		base.flags = []string{"storeEach", "compactShape", "verifyEach", "dirCheck", "finalReopen"}
		base.reopen = 2
		base.concerns = []int{0, 1, 1, 2, 2}
		base.kids = 0.25
		base.drainW = 12
		base.idle = 0.4
		base.clockW = 8
		base.bigVals = 0.6
		base.merges = 0.3
		base.partial = 0.3
		base.longHist = 0.02
		base.wide = 0.08
	case "C08":
		base.flags = []string{"verifyEach", "storeEach", "finalVerify", "finalReopen"}
		base.merges = 1
		base.kids = 0.2
		base.reopen = 3
		base.drainW = 8
		base.bgRefuseW = 4
		base.wide = 0.08
	case "C09":
		base.flags = []string{"finalVerify"}
		base.iterW = 30
		base.merges = 0.2
		base.weirdKeys = 0.4
	case "C10":
		base.flags = []string{"verifyEach", "readPaths", "finalVerify"}
		base.merges = 0.5
		base.weirdKeys = 0.4
		base.verifyW = 20
		base.getErrW = 5
	case "C11":
		base.backings = []string{"mem", "store", "store", "store"}
		base.flags = []string{"verifyEach", "storeEach", "finalVerify", "finalReopen"}
		base.kids = 1
		base.reopen = 4
		base.drainW = 8
		base.merges = 0.3
	case "C12":
		// "direct": the application drives Store.Persist itself and picks the
		// compaction concern of every round (a forced full compaction that
		// fails leaves the history as it was)
		base.backings = []string{"store", "store", "store", "direct"}
		base.flags = []string{"history", "storeEach"}
		base.concerns = []int{0, 0, 0, 1}
		base.histW = 20
		base.partial = 0.15
		base.drainW = 25
		base.kids = 0.3
		base.idleW = 5
		// transient write / sync failures: a failed round may leave a complete
		// footer in the file that was never published; the walk must not show it
		base.faults = "io-light"
	case "C13":
		base.backings = []string{"mapll"}
		base.flags = []string{"verifyEach", "storeEach", "finalVerify", "finalDrain"}
		base.merges = 0.4
		base.bgRefuseW = 4
		base.faults = "llu"
		base.tinyDirty = 0.4
		base.drainW = 8
	case "C15":
		base.backings = []string{"store"}
		base.flags = []string{"snapEach", "leakCheck"}
		base.snapW = 25
		base.kids = 0.3
		base.faults = "io-light"
		base.partial = 0.15
		base.merges = 0.3
		base.getErrW = 4
		base.bgRefuseW = 4
		base.concerns = []int{0, 1, 2, 2}
		base.reopen = 2
		base.idle = 0.4
		base.clockW = 6
	case "C19":
		base.flags = []string{"verifyEach", "storeEach", "finalVerify", "finalReopen", "limits"}
		base.bigKV = 0.0015 // such a run takes 1-3 s (fresh 16 MiB buffers are page-fault bound in this VM)
		base.weirdKeys = 1
		base.alloc = 0.5
		base.bigVals = 0.5
		base.merges = 0.3
		base.reopen = 3
		base.drainW = 8
	case "C20":
		base.backings = []string{"store", "store", "mapll"}
		base.flags = []string{"gauges"}
		base.kids = 0.5
		base.drainW = 10
		base.idleW = 25
	}
	return base
}

// kidsEverywhere enables child collections in the workloads of every property
// that asks for them (off while the child-collection defects are being triaged).
var kidsEverywhere = true

func pick[T any](r *simrt.Rand, xs []T) T { return xs[r.Intn(len(xs))] }

// genOpts draws the option swarm.
func genOpts(r *simrt.Rand, cfg genCfg) Opts {
	o := Opts{Backing: pick(r, cfg.backings)}
	dflt := func() bool { return r.Chance(0.35) } // a random subset stays at its default
	if !dflt() {
		o.MinMergePercentage = pick(r, []float64{0, 0.05, 0.5, 5})
	}
	if !dflt() {
		o.MaxPreMergerBatches = pick(r, []int{1, 2, 3, 10})
	}
	if !dflt() {
		o.MergerCancelCheckEvery = pick(r, []int{0, 1})
	}
	if r.Chance(cfg.idle) {
		o.MergerIdleRunTimeoutMS = pick(r, []int64{5, 50})
	}
	o.DeferredSort = r.Chance(0.3)
	o.CachePersisted = r.Chance(0.4)
	if r.Chance(cfg.tinyDirty) {
		o.MaxDirtyOps = uint64(pick(r, []int{1, 3, 8}))
	}
	if r.Chance(cfg.tinyDirty) {
		o.MaxDirtyKeyValBytes = uint64(pick(r, []int{1, 16, 64}))
	}
	o.Concern = pick(r, cfg.concerns)
	if !dflt() {
		// 100: never "too fragmented" - with small data page alignment makes
		// every file look >90% stale, so partial compaction needs this
		o.CompactionPercentage = pick(r, []float64{0, 0.01, 0.9, 100, 100, 100})
	}
	if !dflt() {
		o.LevelMaxSegments = pick(r, []int{1, 2, 3, 4})
	}
	if !dflt() {
		o.LevelMultiplier = pick(r, []int{2, 3, 9})
	}
	o.BufferPages = 4
	if !dflt() {
		o.BufferPages = pick(r, []int{1, 1, 2, 3, 8, 0})
	}
	o.CompactionSync = r.Chance(0.3)
	if !dflt() {
		o.SyncAfterBytes = pick(r, []int{-1, 0, 64})
	}
	o.NoSync = r.Chance(0.25)
	if !dflt() {
		ix := pick(r, [][2]int{{64, 1}, {16, 1}, {4096, 1}, {0, 0}})
		o.IdxMaxBytes, o.IdxMinKeyBytes = ix[0], ix[1]
	}
	o.KeepFiles = r.Chance(0.1)
	if !dflt() {
		o.NaiveSeekMax = pick(r, []int{1, 3, 100})
	}
	o.SkipStats = r.Chance(0.2)
	if o.Backing == "mapll" {
		o.NoLLInit = r.Chance(0.4)
	}
	return o
}

func genPolicy(r *simrt.Rand) PolicySpec {
	switch r.Intn(7) {
	case 0:
		return PolicySpec{Kind: "uniform"}
	case 1:
		return PolicySpec{Kind: "uniform", Sticky: 0.5}
	case 2:
		return PolicySpec{Kind: "uniform", Sticky: 0.9}
	case 3:
		return PolicySpec{Kind: "uniform", Sticky: 0.99} // run-to-block
	case 4:
		return PolicySpec{Kind: "pct", PctD: 1 + r.Intn(4), Horizon: int64(200 + r.Intn(3000))}
	case 5:
		return PolicySpec{Kind: "weighted", DriverW: 8, BgW: 1, Sticky: 0.3}
	default:
		return PolicySpec{Kind: "weighted", DriverW: 1, BgW: 8, Sticky: 0.3}
	}
}

// keyPool returns the key alphabet of a run.
func keyPool(r *simrt.Rand, weird bool) [][]byte {
	var pool [][]byte
	if weird {
		cands := [][]byte{{}, {0}, {0xff}, {0, 0}, {0xff, 0xff}, []byte("0m1o2s"), []byte("3s4p5s"), []byte("0m1o2s0m1o2s"),
			[]byte("a"), []byte("a\x00"), []byte("a\xff"), []byte("ab"), []byte("b"), []byte("\x00a"), []byte("\xffz"),
			[]byte("moss-data-store:"), []byte("3s4p5s3s4p5s")}
		n := 4 + r.Intn(6)
		for i := 0; i < n; i++ {
			pool = append(pool, cands[r.Intn(len(cands))])
		}
		if r.Chance(0.1) {
			// lengths around 2^16 (in the model, unlike the 2^24-1 byte key of bigkv)
			n := pick(r, []int{65535, 65536, 70001})
			pool = append(pool, append(bytesRepeat(byte(pick(r, []int{0, 'k', 0xff})), n-1), 'z'))
		}
		// dedupe
		seen := map[string]bool{}
		var out [][]byte
		for _, k := range pool {
			if !seen[string(k)] {
				seen[string(k)] = true
				out = append(out, k)
			}
		}
		return out
	}
	switch r.Intn(3) {
	case 0:
		n := 3 + r.Intn(6)
		for i := 0; i < n; i++ {
			pool = append(pool, []byte{byte('a' + i)})
		}
	case 1:
		n := 4 + r.Intn(8)
		for i := 0; i < n; i++ {
			pool = append(pool, []byte(fmt.Sprintf("key-%04d", i*7)))
		}
	default:
		n := 3 + r.Intn(5)
		for i := 0; i < n; i++ {
			pool = append(pool, []byte(fmt.Sprintf("p%s", string(make([]byte, i)))))
			pool[len(pool)-1] = append([]byte("p"), bytesRepeat('x', i)...)
		}
	}
	if r.Chance(0.05) {
		// a key larger than a page (or than the compaction buffer) that sorts first
		pool = append(pool, append([]byte("!"), bytesRepeat('h', pick(r, []int{4096, 5000, 9000, 33000}))...))
	}
	return pool
}

func bytesRepeat(b byte, n int) []byte {
	out := make([]byte, n)
	for i := range out {
		out[i] = b
	}
	return out
}

type batchGen struct {
	r       *simrt.Rand
	pool    [][]byte
	merges  bool
	kids    bool
	alloc   float64
	bigVals float64
	seq     int
	names   []string
}

func (g *batchGen) ops(tag string, maxN int) []KV {
	n := 1 + g.r.Intn(maxN)
	if n > len(g.pool) {
		n = len(g.pool)
	}
	// choose n distinct keys
	idx := g.r.Intn(len(g.pool))
	step := 1 + g.r.Intn(len(g.pool))
	used := map[int]bool{}
	var out []KV
	for len(out) < n {
		idx = (idx + step) % len(g.pool)
		for used[idx] {
			idx = (idx + 1) % len(g.pool)
		}
		used[idx] = true
		k := g.pool[idx]
		kv := KV{K: k}
		x := g.r.Intn(100)
		switch {
		case g.merges && x < 35:
			kv.Op = "merge"
		case x < 70 || (!g.merges && x < 72):
			kv.Op = "set"
		default:
			kv.Op = "del"
		}
		if kv.Op != "del" {
			switch {
			case kv.Op == "merge" && g.r.Chance(0.1):
				kv.V = []byte("~") // operand that merges to an empty (but present) value
			case kv.Op == "merge" && g.r.Chance(0.08):
				kv.V = []byte("=") // operand for which the operator returns its existingValue argument itself
			case g.r.Chance(0.12):
				kv.V = []byte{}
			case g.r.Chance(g.bigVals * 0.3):
				sz := pick(g.r, []int{4095, 4096, 4097, 8191, 8192, 1, 22, 23})
				kv.V = bytesRepeat(byte('A'+g.seq%26), sz)
				copy(kv.V, fmt.Sprintf("%s%d.%d:", tag, g.seq, len(out)))
			case g.r.Chance(g.bigVals * 0.2):
				kv.V = []byte{0, 0xff, 0, byte(g.seq), byte(len(out))}
			default:
				kv.V = []byte(fmt.Sprintf("%s%d.%d", tag, g.seq, len(out)))
			}
		}
		kv.Alloc = g.r.Chance(g.alloc)
		out = append(out, kv)
	}
	return out
}

// bigBatch sets every pool key (in descending order) at the top level and,
// with child collections in use, in one child and one grandchild as well.
func (g *batchGen) bigBatch(valLen int) *BatchSpec {
	g.seq++
	fill := func(tag string) []KV {
		var ops []KV
		for i := len(g.pool) - 1; i >= 0; i-- {
			v := bytesRepeat(byte('a'+i%26), valLen)
			copy(v, fmt.Sprintf("%s%d.%d:", tag, g.seq, i))
			ops = append(ops, KV{Op: "set", K: g.pool[i], V: v})
		}
		return ops
	}
	big := &BatchSpec{Ops: fill("v")}
	if g.kids && len(g.names) > 0 {
		n1, n2 := g.names[0], g.names[len(g.names)-1]
		big.Kids = map[string]*BatchSpec{n1: {Ops: fill(n1), Kids: map[string]*BatchSpec{n2: {Ops: fill(n1 + "." + n2)}}}}
	}
	return big
}

func (g *batchGen) batch() *BatchSpec {
	g.seq++
	if g.kids && !AvoidTriggers["structuralOnlyBatch"] && g.r.Chance(0.08) {
		// a purely structural batch: no key operation at any level
		n1, n2 := pick(g.r, g.names), pick(g.r, g.names)
		switch g.r.Intn(4) {
		case 0:
			return &BatchSpec{DelKids: []string{n1}}
		case 1:
			return &BatchSpec{Kids: map[string]*BatchSpec{n1: {DelKids: []string{n2}}}}
		case 2:
			return &BatchSpec{Kids: map[string]*BatchSpec{n1: {Kids: map[string]*BatchSpec{n2: {}}}}}
		default:
			return &BatchSpec{Kids: map[string]*BatchSpec{n1: {}}}
		}
	}
	b := &BatchSpec{}
	if !g.kids || g.r.Chance(0.6) {
		b.Ops = g.ops("v", 5)
	}
	if g.alloc > 0 && g.r.Chance(0.5) {
		b.AllocLate = 1 + g.r.Intn(2)
	}
	if g.kids {
		// child names: a small tree, two names per level, two levels
		for _, name := range g.names {
			x := g.r.Intn(100)
			switch {
			case x < 35:
				cb := &BatchSpec{}
				if g.r.Chance(0.85) {
					cb.Ops = g.ops(name, 4)
				}
				if g.r.Chance(0.25) { // nested child
					nn := pick(g.r, g.names)
					y := g.r.Intn(10)
					switch {
					case y < 7:
						cb.Kids = map[string]*BatchSpec{nn: {Ops: g.ops(name+"."+nn, 3)}}
					case y < 8:
						cb.Kids = map[string]*BatchSpec{nn: {}}
					default:
						cb.DelKids = []string{nn}
					}
				}
				if b.Kids == nil {
					b.Kids = map[string]*BatchSpec{}
				}
				b.Kids[name] = cb
			case x < 45:
				b.DelKids = append(b.DelKids, name)
			}
		}
		if len(b.Ops) == 0 && len(b.Kids) == 0 && len(b.DelKids) == 0 {
			b.Ops = g.ops("v", 3)
		}
		if AvoidTriggers["structuralOnlyBatch"] && countOps(b) == 0 {
			b.Ops = g.ops("v", 2)
		}
	}
	return b
}

func genSingle(c *Case, r *simrt.Rand, cfg genCfg) {
	c.Opts = genOpts(r, cfg)
	c.Policy = genPolicy(r)
	c.VerifyAtomic = r.Chance(0.6)
	for _, f := range cfg.flags {
		c.Flags[f] = true
	}
	g := &batchGen{r: r, pool: keyPool(r, r.Chance(cfg.weirdKeys)), alloc: 0, bigVals: cfg.bigVals}
	if r.Chance(cfg.alloc) {
		g.alloc = 0.5
	}
	g.merges = r.Chance(cfg.merges)
	g.kids = r.Chance(cfg.kids) && c.Opts.Backing != "mapll" && (kidsEverywhere || c.Prop == "C11")
	if g.kids {
		g.names = [][]string{{"x", "y"}, {"x"}, {"c1", "c2", ".r"}}[r.Intn(3)]
	}
	c.Opts.MergeOp = g.merges
	store := c.Opts.Backing == "store" || c.Opts.Backing == "direct"
	if c.Opts.Backing == "direct" {
		g.kids = false // restoring child collections on reopen is OpenStoreCollection's business
	}
	if c.Opts.MergerIdleRunTimeoutMS > 0 && c.Policy.PAdvance == 0 {
		c.Policy.PAdvance = pick(r, []float64{0, 0.01, 0.05})
	}
	if cfg.faults == "llu" && r.Chance(0.6) {
		nf := 1 + r.Intn(3)
		for i := 0; i < nf; i++ {
			f := Fault{At: r.Intn(8), Kind: pick(r, []string{"llu-err", "llu-err", "llu-stall"}), Count: pick(r, []int{1, 1, 2, 3}), Frac: r.Intn(2000)}
			if r.Chance(0.15) {
				f.Count = -1
				f.Until = f.At + 2 + r.Intn(6)
			}
			c.Faults = append(c.Faults, f)
		}
	}
	// A case shaped for partial compactions: a large first segment (a level of
	// its own), then small batches each persisted on its own, few segments per
	// level, compaction allowed and never "too fragmented".
	partial := cfg.partial > 0 && store && r.Chance(cfg.partial)
	if partial {
		c.Opts.Concern = 1
		c.Opts.CompactionPercentage = 100
		c.Opts.LevelMaxSegments = pick(r, []int{1, 2, 2, 3})
		c.Opts.LevelMultiplier = pick(r, []int{2, 3})
		c.Prog = append(c.Prog, Op{Kind: "batch", B: g.bigBatch(8192)}, Op{Kind: "drain"})
	} else if store && c.Opts.DeferredSort && r.Chance(0.3) {
		// deferred sorting: a first batch much larger than the following ones
		// (a later partial merge leaves its segments alone), filled in
		// descending key order at every nesting level, and nothing reads it
		// before it is persisted unless the program happens to
		c.Prog = append(c.Prog, Op{Kind: "batch", B: g.bigBatch(40)})
		if c.Opts.MaxPreMergerBatches != 0 && c.Opts.MaxPreMergerBatches < 4 {
			c.Opts.MaxPreMergerBatches = 10
		}
		for i := 0; i < 2; i++ {
			// two small batches over the same collections right behind it
			g.seq++
			one := func(tag string) []KV {
				return []KV{{Op: "set", K: g.pool[len(g.pool)-1-i%len(g.pool)], V: []byte(fmt.Sprintf("%s%d.0", tag, g.seq))}}
			}
			b := &BatchSpec{Ops: one("v")}
			if g.kids && len(g.names) > 0 {
				n1, n2 := g.names[0], g.names[len(g.names)-1]
				b.Kids = map[string]*BatchSpec{n1: {Ops: one(n1), Kids: map[string]*BatchSpec{n2: {Ops: one(n1 + "." + n2)}}}}
			}
			c.Prog = append(c.Prog, Op{Kind: "batch", B: b})
		}
	}
	if cfg.faults == "io-light" && store && r.Chance(0.3) {
		// one or two transient write / sync failures somewhere in the run: the
		// round fails, is retried and succeeds; everything else stays as it is
		nf := 1 + r.Intn(2)
		for i := 0; i < nf; i++ {
			c.Faults = append(c.Faults, Fault{At: r.Intn(70), Kind: pick(r, []string{"write-eio", "write-short", "sync-eio", "sync-eio", "stat-eio", "mmap-fail", "mmap-fail", "mmap-fail"}), Count: pick(r, []int{1, 1, 2}), Frac: r.Intn(1000)})
		}
	}
	if store && g.kids && g.merges && len(g.names) > 0 && r.Chance(0.25) {
		// merges on a key of a nested child collection whose value so far is
		// only in the store, arriving back to back (several segments of that
		// child for one merger cycle, maybe while a round is in flight)
		n1, n2 := g.names[0], g.names[len(g.names)-1]
		k := g.pool[r.Intn(len(g.pool))]
		nested := func(kv KV) *BatchSpec {
			return &BatchSpec{Kids: map[string]*BatchSpec{n1: {Kids: map[string]*BatchSpec{n2: {Ops: []KV{kv}}}}}}
		}
		g.seq++
		c.Prog = append(c.Prog, Op{Kind: "batch", B: nested(KV{Op: "set", K: k, V: []byte(fmt.Sprintf("%s.%s%d.0", n1, n2, g.seq))})}, Op{Kind: "drain"})
		for i, nb := 0, 2+r.Intn(4); i < nb; i++ {
			g.seq++
			b := nested(KV{Op: "merge", K: k, V: []byte(fmt.Sprintf("n%d", g.seq))})
			if r.Chance(0.5) {
				b.Ops = g.ops("v", 2)
			}
			c.Prog = append(c.Prog, Op{Kind: "batch", B: b})
			if r.Chance(0.25) {
				c.Prog = append(c.Prog, Op{Kind: "notify", S: pick(r, []string{"", "mergeAll"})})
			}
		}
	}
	if !partial && r.Chance(cfg.burst) {
		// Ingest burst: the application's OnEvent callback is slow once (the
		// merger is held up at the end of a cycle) while a big batch and a few
		// small ones are executed; the next cycle ingests them together, which
		// is what partial in-memory merges (several segments left in the dirty
		// mid / handed to the persister at once) need.
		if c.Opts.MaxPreMergerBatches != 0 && c.Opts.MaxPreMergerBatches < 10 {
			c.Opts.MaxPreMergerBatches = 10
		}
		c.Opts.MaxDirtyOps, c.Opts.MaxDirtyKeyValBytes = 0, 0
		if r.Chance(0.3) {
			c.Opts.MinMergePercentage = pick(r, []float64{0, 0.5, 5})
		}
		if r.Chance(0.4) {
			c.Prog = append(c.Prog, Op{Kind: "batch", B: g.batch()})
			if c.Opts.Backing != "mem" && r.Chance(0.5) {
				c.Prog = append(c.Prog, Op{Kind: "drain"})
			}
		}
		c.Prog = append(c.Prog, Op{Kind: "stallMerger", N: pick(r, []int{3000, 10000, 30000})})
		if r.Chance(0.6) {
			// a tiny batch sets the cycle off that ends in the slow callback
			g.seq++
			c.Prog = append(c.Prog, Op{Kind: "batch", B: &BatchSpec{Ops: []KV{{Op: "set", K: g.pool[0], V: []byte(fmt.Sprintf("v%d.0", g.seq))}}}})
		}
		big := g.bigBatch(pick(r, []int{12, 40}))
		if g.merges {
			// every other key of the big batch is a Merge
			for i := range big.Ops {
				if i%2 == 1 {
					big.Ops[i].Op = "merge"
				}
			}
		}
		c.Prog = append(c.Prog, Op{Kind: "batch", B: big})
		for i, nb := 0, 2+r.Intn(3); i < nb; i++ {
			var b *BatchSpec
			if r.Chance(0.5) {
				b = g.batch()
			} else {
				// one or two operations on keys of the big batch
				g.seq++
				b = &BatchSpec{}
				for j, no := 0, 1+r.Intn(2); j < no; j++ {
					kv := KV{K: g.pool[(i*2+j)%len(g.pool)]}
					switch x := r.Intn(10); {
					case x < 4:
						kv.Op = "del"
					case x < 7 && g.merges:
						kv.Op, kv.V = "merge", []byte(fmt.Sprintf("b%d.%d", g.seq, j))
					default:
						kv.Op, kv.V = "set", []byte(fmt.Sprintf("v%d.%d", g.seq, j))
					}
					if j == 1 && string(kv.K) == string(b.Ops[0].K) {
						continue
					}
					b.Ops = append(b.Ops, kv)
				}
			}
			c.Prog = append(c.Prog, Op{Kind: "batch", B: b})
		}
		if r.Chance(0.3) {
			c.Prog = append(c.Prog, Op{Kind: "verify"})
		}
	}
	if r.Chance(cfg.wide) {
		// Wide batches: 257-700 keys of a family of their own, so that the
		// kvs array of a segment (16 bytes per operation) is longer than a
		// page, in memory, persisted and compacted.  With a merge operator most
		// of them are Merge operations that reach the store unresolved.
		wideBatch := func(n, from int) *BatchSpec {
			g.seq++
			b := &BatchSpec{}
			for i := 0; i < n; i++ {
				kv := KV{K: []byte(fmt.Sprintf("w%05d", (from+i)*3))}
				switch x := r.Intn(20); {
				case g.merges && x < 13:
					kv.Op, kv.V = "merge", []byte(fmt.Sprintf("m%d", g.seq))
				case x < 18:
					kv.Op, kv.V = "set", []byte(fmt.Sprintf("v%d.%d", g.seq, i))
				default:
					kv.Op = "del"
				}
				b.Ops = append(b.Ops, kv)
			}
			return b
		}
		n1 := pick(r, []int{257, 300, 513, 700})
		c.Prog = append(c.Prog, Op{Kind: "batch", B: wideBatch(n1, 0)})
		if c.Opts.Backing != "mem" && r.Chance(0.7) {
			c.Prog = append(c.Prog, Op{Kind: "drain"})
		}
		if r.Chance(0.5) {
			c.Prog = append(c.Prog, Op{Kind: "batch", B: wideBatch(pick(r, []int{40, 257, 300}), n1/2)})
			if c.Opts.Backing != "mem" && r.Chance(0.5) {
				c.Prog = append(c.Prog, Op{Kind: "drain"})
			}
		}
		c.MaxSteps *= 2
	}
	n := 4 + r.Intn(cfg.maxOps)
	longHist := !partial && cfg.longHist > 0 && store && r.Chance(cfg.longHist)
	if longHist {
		// 32-44 small batches, each persisted in a round of its own, never
		// compacted: the footer outgrows a page
		c.Opts.Concern = 0
		c.Opts.MergerIdleRunTimeoutMS = 0
		c.MaxSteps *= 3
		for i, nb := 0, 32+r.Intn(13); i < nb; i++ {
			c.Prog = append(c.Prog, Op{Kind: "batch", B: g.batch()}, Op{Kind: "drain"})
		}
		n = 2 + r.Intn(6)
	}
	type w struct {
		kind string
		w    int
	}
	ws := []w{{"batch", cfg.batchW}, {"verify", cfg.verifyW}, {"idle", cfg.idleW}, {"notify", cfg.notifyW}}
	if c.Opts.Backing != "mem" {
		ws = append(ws, w{"drain", cfg.drainW})
	}
	if store {
		ws = append(ws, w{"reopen", int(cfg.reopen)})
		ws = append(ws, w{"hist", cfg.histW})
	}
	if c.Opts.MergerIdleRunTimeoutMS > 0 {
		ws = append(ws, w{"clock", cfg.clockW})
	}
	ws = append(ws, w{"snap", cfg.snapW}, w{"iter", cfg.iterW}, w{"stall", cfg.stallW})
	if g.merges && c.Opts.Backing != "mapll" {
		ws = append(ws, w{"getErr", cfg.getErrW})
	}
	if g.merges && c.Opts.Backing != "mem" {
		ws = append(ws, w{"bgRefuse", cfg.bgRefuseW})
	}
	tot := 0
	for _, x := range ws {
		tot += x.w
	}
	nsnap := 0
	for i := 0; i < n; i++ {
		x := r.Intn(tot)
		kind := ""
		for _, y := range ws {
			if x < y.w {
				kind = y.kind
				break
			}
			x -= y.w
		}
		switch kind {
		case "batch":
			c.Prog = append(c.Prog, Op{Kind: "batch", B: g.batch()})
			if partial && r.Chance(0.7) {
				c.Prog = append(c.Prog, Op{Kind: "drain"})
			}
		case "verify":
			c.Prog = append(c.Prog, Op{Kind: "verify"})
		case "idle":
			c.Prog = append(c.Prog, Op{Kind: "idle", N: pick(r, []int{1, 3, 10, 30, 100, 400, 5000})})
		case "notify":
			c.Prog = append(c.Prog, Op{Kind: "notify", S: pick(r, []string{"", "mergeAll", "mergeAll"}), Flag: r.Chance(0.5)})
		case "drain":
			c.Prog = append(c.Prog, Op{Kind: "drain"})
		case "reopen":
			o := c.Opts
			if r.Chance(0.5) {
				o2 := genOpts(r, cfg)
				o2.Backing = c.Opts.Backing
				o2.MergeOp = c.Opts.MergeOp
				o = o2
			}
			if r.Chance(0.6) {
				c.Prog = append(c.Prog, Op{Kind: "drain"})
			}
			c.Prog = append(c.Prog, Op{Kind: "reopen", O: &o, Flag: r.Chance(0.4)})
		case "clock":
			c.Prog = append(c.Prog, Op{Kind: "clock", N: pick(r, []int{1, 6, 60, 200})})
		case "snap":
			y := r.Intn(10)
			switch {
			case nsnap == 0 || y < 4:
				kinds := []string{"coll", "coll", "iter"}
				if store {
					kinds = append(kinds, "store", "store", "storeIter")
				}
				if g.kids {
					kinds = append(kinds, "child", "child")
				}
				op := Op{Kind: "snapOpen", S: pick(r, kinds), N: r.Intn(4)}
				if op.S == "iter" || op.S == "storeIter" {
					op.Flag = r.Chance(0.4) // the snapshot is closed right away, the iterator stays
				}
				if op.S == "child" {
					op.Flag = r.Chance(0.3) // the handle is an iterator on the child snapshot
				}
				if g.kids {
					op.K = []byte(pick(r, g.names))
				}
				c.Prog = append(c.Prog, op)
				nsnap++
			case y < 6:
				c.Prog = append(c.Prog, Op{Kind: "snapVerify", N: r.Intn(nsnap)})
			case y < 8:
				ip := genIterProg(r, g.pool)
				ip.Kind = "snapIter"
				ip.N = r.Intn(nsnap)
				c.Prog = append(c.Prog, ip)
			default:
				c.Prog = append(c.Prog, Op{Kind: "snapClose", N: r.Intn(nsnap)})
			}
		case "stall":
			c.Prog = append(c.Prog, Op{Kind: "stallMerger", N: pick(r, []int{300, 3000, 10000})})
		case "bgRefuse":
			c.Prog = append(c.Prog, Op{Kind: "bgRefuse", N: r.Intn(2)})
		case "getErr":
			g.seq++
			k := pick(r, g.pool)
			c.Prog = append(c.Prog, Op{Kind: "getErr", B: &BatchSpec{Ops: []KV{{Op: "merge", K: k, V: []byte(fmt.Sprintf("g%d", g.seq))}}}})
		case "iter":
			c.Prog = append(c.Prog, genIterProg(r, g.pool))
		case "hist":
			if r.Chance(0.6) {
				c.Prog = append(c.Prog, Op{Kind: "previous", N: r.Intn(5)})
			} else {
				c.Prog = append(c.Prog, Op{Kind: "revert", N: r.Intn(4), Flag: r.Chance(0.5)})
			}
		}
	}
	if cfg.bigKV > 0 && c.Opts.Backing != "mapll" && r.Chance(cfg.bigKV) {
		// a key of exactly 2^24-1 bytes (and now and then a value of 2^28-1
		// bytes) somewhere in the program
		nb := 1 + r.Intn(2)
		for i := 0; i < nb; i++ {
			op := Op{Kind: "bigkv", M: r.Intn(4), N: r.Intn(2), Flag: r.Chance(0.4)}
			if cfg.maxValue && r.Chance(0.25) {
				op.N = 2
			}
			at := r.Intn(len(c.Prog) + 1)
			c.Prog = append(c.Prog[:at], append([]Op{op}, c.Prog[at:]...)...)
		}
	}
	if c.Opts.Backing != "mem" && (c.Prop == "C20" || c.Prop == "C11" || c.Prop == "C04") && r.Chance(0.7) {
		// end with a drain: whatever was executed must reach the lower level
		// once the background tasks have nothing left to do
		c.Prog = append(c.Prog, Op{Kind: "drain"})
	}
	if c.Flags["finalDrain"] {
		c.Prog = append(c.Prog, Op{Kind: "stopFaults"}, Op{Kind: "drain"}, Op{Kind: "verify"})
	}
}

func genIterProg(r *simrt.Rand, pool [][]byte) Op {
	bound := func() []byte {
		switch r.Intn(8) {
		case 0, 1:
			return nil
		case 2:
			return []byte{}
		case 3:
			k := pick(r, pool)
			return append(append([]byte{}, k...), 0)
		case 4:
			k := pick(r, pool)
			if len(k) > 0 {
				return k[:len(k)-1]
			}
			return k
		default:
			return pick(r, pool)
		}
	}
	op := Op{Kind: "iterProg", K: bound(), K2: bound(), S: pick(r, []string{"coll", "coll", "lower"})}
	if r.Chance(0.15) {
		op.K2 = op.K // equal bounds
	}
	n := 1 + r.Intn(12)
	for i := 0; i < n; i++ {
		switch r.Intn(5) {
		case 0, 1:
			op.Prog = append(op.Prog, IterOp{Kind: "next"})
		case 2, 3:
			op.Prog = append(op.Prog, IterOp{Kind: "seek", K: bound()})
		default:
			op.Prog = append(op.Prog, IterOp{Kind: "current"})
		}
	}
	return op
}
