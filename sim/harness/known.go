package harness

import (
	"encoding/json"
	"os"
	"strconv"
	"strings"
)

// KnownFinding mirrors an entry of /verif/known_findings.json.
type KnownFinding struct {
	ID       string            `json:"id"`
	Property string            `json:"property"`
	What     string            `json:"what"`
	Classes  []string          `json:"classes"`
	Trigger  map[string]string `json:"trigger"`
	Symptom  map[string]string `json:"symptom"`
	MsgHas   []string          `json:"msgHas"`
}

// LoadKnown reads the known-findings file (never written at run time).
func LoadKnown(path string) []KnownFinding {
	var kf struct {
		Known []KnownFinding `json:"known"`
	}
	if b, err := os.ReadFile(path); err == nil {
		json.Unmarshal(b, &kf)
	}
	return kf.Known
}

func factMatches(got, want string) bool {
	if strings.HasPrefix(want, "!") {
		return got != want[1:]
	}
	if want == ">0" {
		n, err := strconv.Atoi(got)
		return err == nil && n > 0
	}
	for _, alt := range strings.Split(want, "|") {
		if got == alt {
			return true
		}
	}
	return false
}

// Matches: the violation has the finding's trigger (facts of the history
// before the divergence) and symptom (failed clause).
func (k *KnownFinding) Matches(prop string, v *Violation) bool {
	if k.Property != prop && k.Property != v.Prop {
		return false
	}
	okc := len(k.Classes) == 0
	for _, c := range k.Classes {
		if c == v.Class {
			okc = true
		}
	}
	if !okc {
		return false
	}
	for key, want := range k.Trigger {
		if !factMatches(v.Detail[key], want) {
			return false
		}
	}
	for key, want := range k.Symptom {
		if !factMatches(v.Detail[key], want) {
			return false
		}
	}
	for _, s := range k.MsgHas {
		if !strings.Contains(v.Msg, s) {
			return false
		}
	}
	return true
}

// AvoidTriggers lists known-finding triggers the generator stops drawing once
// a finding has been hit a few times in one check, so that the remaining budget
// goes to space in which nothing can be suppressed.
var AvoidTriggers = map[string]bool{}
