package harness

import (
	"bytes"
	"errors"
	"fmt"
	"sort"

	"github.com/couchbase/moss"
	"verifsim/simrt"
)

// mapLL is the application-supplied lower level of C13: an immutable sorted
// map per snapshot, updated by the documented LowerLevelUpdate protocol.
type mapLL struct {
	e       *Exec
	cur     *mapSnap
	updates int
	failed  int
	// fault plan for the callback
	faults   []Fault
	lastFail []entry // entries offered by the last failed update
	applied  int
}

type entry struct {
	op uint64
	k  string
	v  []byte
}

type mapSnap struct {
	keys []string
	vals map[string][]byte
}

func newMapLL(e *Exec) *mapLL {
	ll := &mapLL{e: e, cur: &mapSnap{vals: map[string][]byte{}}}
	for _, f := range e.c.Faults {
		if f.Kind == "llu-err" || f.Kind == "llu-stall" {
			ll.faults = append(ll.faults, f)
		}
	}
	return ll
}

func (ll *mapLL) stopFaults() { ll.faults = nil }

func (ll *mapLL) snapshot() moss.Snapshot { return ll.cur }

func (ll *mapLL) content() *Node {
	n := NewNode()
	for k, v := range ll.cur.vals {
		n.KV[k] = append([]byte{}, v...)
	}
	return n
}

var errInjected = errors.New("injected lower-level failure")

// update implements moss.LowerLevelUpdate by the documented protocol: iterate
// `higher` with deletions while skipping the lower level; resolve merge entries
// with higher.Get.
func (ll *mapLL) update(higher moss.Snapshot) (moss.Snapshot, error) {
	e := ll.e
	idx := ll.updates
	ll.updates++
	simrt.Yield(siteCallback)
	var flt *Fault
	for i := range ll.faults {
		f := &ll.faults[i]
		n := f.Count
		if n == 0 {
			n = 1
		}
		if idx >= f.At && (n < 0 && (f.Until == 0 || idx < f.Until) || n > 0 && idx < f.At+n) {
			flt = f
			break
		}
	}
	// read what is offered
	var ents []entry
	it, err := higher.StartIterator(nil, nil, moss.IteratorOptions{IncludeDeletions: true, SkipLowerLevel: true})
	if err != nil {
		return nil, err
	}
	if it != nil {
		for {
			ex, k, v, err := it.CurrentEx()
			if err == moss.ErrIteratorDone {
				break
			}
			if err != nil {
				it.Close()
				return nil, err
			}
			ent := entry{op: ex.Operation, k: string(k), v: append([]byte{}, v...)}
			if ex.Operation == moss.OperationMerge {
				mv, err := higher.Get(k, moss.ReadOptions{})
				if err != nil {
					it.Close()
					return nil, err
				}
				ent.v = append([]byte{}, mv...)
				if mv == nil {
					ent.op = moss.OperationDel
				} else {
					ent.op = moss.OperationSet
				}
			}
			ents = append(ents, ent)
			// a slow lower level: other tasks may run while we work
			simrt.Yield(siteCallback)
			if err := it.Next(); err != nil {
				break
			}
		}
		it.Close()
	}
	// after a failed update the same mutations must be offered again
	if ll.lastFail != nil {
		if miss := missingFrom(ll.lastFail, ents); miss != "" && e.viol == nil {
			e.viol = &Violation{Prop: e.c.Prop, Class: "llu-not-reoffered", OpIdx: e.opIdx, Detail: e.detail(nil),
				Msg: fmt.Sprintf("after a failed LowerLevelUpdate the next offered snapshot lacks mutation %s", miss)}
		}
	}
	if flt != nil {
		e.fs.Fired[flt.Kind]++
		e.fs.FaultSeen++
		simrt.Note("fault:"+flt.Kind, uint64(idx))
		if flt.Kind == "llu-stall" {
			// stalled, then resumed: let everybody else run for a while
			simrt.Stall(int64(500 + flt.Frac))
		} else {
			ll.lastFail = ents
			ll.failed++
			return nil, errInjected
		}
	}
	ll.lastFail = nil
	next := &mapSnap{vals: make(map[string][]byte, len(ll.cur.vals)+len(ents))}
	for k, v := range ll.cur.vals {
		next.vals[k] = v
	}
	for _, en := range ents {
		if en.op == moss.OperationDel {
			delete(next.vals, en.k)
		} else {
			next.vals[en.k] = en.v
		}
	}
	for k := range next.vals {
		next.keys = append(next.keys, k)
	}
	sort.Strings(next.keys)
	ll.cur = next
	ll.applied++
	return next, nil
}

func missingFrom(old, now []entry) string {
	idx := map[string]entry{}
	for _, en := range now {
		idx[en.k] = en
	}
	for _, o := range old {
		if _, ok := idx[o.k]; !ok {
			return fmt.Sprintf("%q", o.k)
		}
	}
	return ""
}

// --- moss.Snapshot on mapSnap

func (s *mapSnap) Close() error { return nil }

func (s *mapSnap) Get(key []byte, ro moss.ReadOptions) ([]byte, error) {
	v, ok := s.vals[string(key)]
	if !ok {
		return nil, nil
	}
	if v == nil {
		v = []byte{}
	}
	return v, nil
}

func (s *mapSnap) ChildCollectionNames() ([]string, error) { return nil, nil }
func (s *mapSnap) ChildCollectionSnapshot(string) (moss.Snapshot, error) {
	return nil, nil
}

func (s *mapSnap) StartIterator(start, end []byte, io moss.IteratorOptions) (moss.Iterator, error) {
	it := &mapIter{s: s, start: start, end: end}
	it.seek(start)
	return it, nil
}

type mapIter struct {
	s          *mapSnap
	start, end []byte
	pos        int
}

func (it *mapIter) seek(k []byte) {
	if it.start != nil && bytes.Compare(k, it.start) < 0 {
		k = it.start
	}
	it.pos = sort.SearchStrings(it.s.keys, string(k))
}

func (it *mapIter) done() bool {
	if it.pos >= len(it.s.keys) {
		return true
	}
	return it.end != nil && it.s.keys[it.pos] >= string(it.end)
}

func (it *mapIter) Close() error { return nil }
func (it *mapIter) Next() error {
	if it.done() {
		return moss.ErrIteratorDone
	}
	it.pos++
	if it.done() {
		return moss.ErrIteratorDone
	}
	return nil
}
func (it *mapIter) SeekTo(k []byte) error {
	it.seek(k)
	if it.done() {
		return moss.ErrIteratorDone
	}
	return nil
}
func (it *mapIter) Current() ([]byte, []byte, error) {
	if it.done() {
		return nil, nil, moss.ErrIteratorDone
	}
	k := it.s.keys[it.pos]
	v := it.s.vals[k]
	if v == nil {
		v = []byte{}
	}
	return []byte(k), v, nil
}
func (it *mapIter) CurrentEx() (moss.EntryEx, []byte, []byte, error) {
	k, v, err := it.Current()
	if err != nil {
		return moss.EntryEx{}, nil, nil, err
	}
	return moss.EntryEx{Operation: moss.OperationSet}, k, v, nil
}
