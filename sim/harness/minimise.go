package harness

import (
	"encoding/json"
	"time"
)

func cloneCase(c *Case) *Case {
	b, _ := json.Marshal(c)
	var out Case
	json.Unmarshal(b, &out)
	return &out
}

func sameViolation(a, b *Violation) bool {
	return a != nil && b != nil && a.Prop == b.Prop && a.Class == b.Class && a.Detail["symptom"] == b.Detail["symptom"]
}

// Minimise shrinks a failing case while the same violation class persists.
// Every candidate is executed with a PRNG-driven schedule (the recorded
// decision log is dropped as soon as the program changes) under a few scheduler
// seeds; the result replays deterministically from its own SchedSeed.
func Minimise(c *Case, want *Violation, budget time.Duration) (*Case, *Outcome, int) {
	deadline := time.Now().Add(budget)
	tries := 0
	best := cloneCase(c)
	var bestOut *Outcome
	try := func(cand *Case) bool {
		if time.Now().After(deadline) {
			return false
		}
		cand.Decisions = nil
		cand.QuietTail = false
		seeds := []uint64{cand.SchedSeed, cand.SchedSeed + 1, cand.SchedSeed*31 + 7}
		for _, s := range seeds {
			cc := cloneCase(cand)
			cc.SchedSeed = s
			tries++
			out, err := RunCase(cc)
			if err != nil {
				return false
			}
			if sameViolation(out.Violation, want) {
				best = cc
				bestOut = out
				return true
			}
		}
		return false
	}
	// make sure it fails without the decision log at all
	if !try(cloneCase(best)) {
		return c, nil, tries
	}
	progs := func(c *Case) []*[]Op {
		if c.Drivers != nil {
			var out []*[]Op
			for i := range c.Drivers {
				out = append(out, &c.Drivers[i])
			}
			return out
		}
		return []*[]Op{&c.Prog}
	}
	// 1. drop operations (chunks, then singles)
	for pi := range progs(best) {
		n := len(*progs(best)[pi])
		for chunk := n / 2; chunk >= 1; chunk /= 2 {
			for i := 0; i+chunk <= len(*progs(best)[pi]); {
				cand := cloneCase(best)
				p := progs(cand)[pi]
				*p = append(append([]Op{}, (*p)[:i]...), (*p)[i+chunk:]...)
				if !try(cand) {
					i += chunk
				}
				if time.Now().After(deadline) {
					return best, bestOut, tries
				}
			}
		}
	}
	// 2. shrink batches
	for pi := range progs(best) {
		for i := 0; i < len(*progs(best)[pi]); i++ {
			op := (*progs(best)[pi])[i]
			if op.B == nil {
				continue
			}
			for k := 0; k < len((*progs(best)[pi])[i].B.Ops); {
				cand := cloneCase(best)
				b := (*progs(cand)[pi])[i].B
				b.Ops = append(append([]KV{}, b.Ops[:k]...), b.Ops[k+1:]...)
				if !try(cand) {
					k++
				}
			}
			for _, name := range (*progs(best)[pi])[i].B.kidNames() {
				cand := cloneCase(best)
				delete((*progs(cand)[pi])[i].B.Kids, name)
				try(cand)
			}
			for k := 0; k < len((*progs(best)[pi])[i].B.DelKids); {
				cand := cloneCase(best)
				b := (*progs(cand)[pi])[i].B
				b.DelKids = append(append([]string{}, b.DelKids[:k]...), b.DelKids[k+1:]...)
				if !try(cand) {
					k++
				}
			}
		}
	}
	// 3. drop faults
	for k := 0; k < len(best.Faults); {
		cand := cloneCase(best)
		cand.Faults = append(append([]Fault{}, cand.Faults[:k]...), cand.Faults[k+1:]...)
		if !try(cand) {
			k++
		}
	}
	// 4. options back to defaults, one at a time
	b, _ := json.Marshal(best.Opts)
	var om map[string]interface{}
	json.Unmarshal(b, &om)
	for key := range om {
		if key == "backing" || key == "mergeOp" {
			continue
		}
		cand := cloneCase(best)
		var m2 map[string]interface{}
		bb, _ := json.Marshal(cand.Opts)
		json.Unmarshal(bb, &m2)
		delete(m2, key)
		bb, _ = json.Marshal(m2)
		cand.Opts = Opts{}
		json.Unmarshal(bb, &cand.Opts)
		try(cand)
	}
	// 5. simplest policy
	cand := cloneCase(best)
	cand.Policy = PolicySpec{Kind: "uniform", Sticky: 0.9}
	try(cand)
	// 6. schedule: the shortest prefix of the failing run's decision log after
	// which a quiet tail (every further decision 0: first eligible task, first
	// grantable case, no clock advance) still ends in the same violation.
	// Bisection; the property is not monotone in the prefix length, so the
	// result is a local minimum - every accepted candidate was executed.
	if bestOut != nil && len(bestOut.Decisions) > 0 {
		full := bestOut.Decisions
		tryPrefix := func(k int) (*Case, *Outcome) {
			if time.Now().After(deadline) {
				return nil, nil
			}
			cc := cloneCase(best)
			cc.Decisions = append([]uint32{}, full[:k]...)
			cc.QuietTail = true
			tries++
			out, err := RunCase(cc)
			if err != nil || !sameViolation(out.Violation, want) {
				return nil, nil
			}
			return cc, out
		}
		var qc *Case
		var qo *Outcome
		lo, hi := 0, len(full)
		if c0, o0 := tryPrefix(0); c0 != nil {
			qc, qo, hi = c0, o0, 0
		}
		for lo < hi {
			mid := (lo + hi) / 2
			if c1, o1 := tryPrefix(mid); c1 != nil {
				qc, qo, hi = c1, o1, mid
			} else {
				lo = mid + 1
			}
		}
		if qc == nil && hi == len(full) {
			qc, qo = tryPrefix(len(full))
		}
		if qc != nil {
			best, bestOut = qc, qo
		}
	}
	return best, bestOut, tries
}
