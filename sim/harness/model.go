package harness

import (
	"bytes"
	"fmt"
	"sort"
	"strings"
)

// Node is the reference model of one collection: an ordered map plus named
// children.  nil value never occurs for a live key (empty value = []byte{}).
type Node struct {
	KV   map[string][]byte
	Kids map[string]*Node
}

func NewNode() *Node { return &Node{KV: map[string][]byte{}, Kids: map[string]*Node{}} }

// MergeFold is the reference semantics of the harness merge operator.
func MergeFold(existing, operand []byte) []byte {
	if len(operand) == 1 && operand[0] == '~' {
		return []byte{} // the "clear" operand: the key stays, with an empty value
	}
	if len(operand) == 1 && operand[0] == '=' {
		// the "keep" operand: the value stays (an absent key becomes an empty value)
		return append([]byte{}, existing...)
	}
	out := make([]byte, 0, len(existing)+1+len(operand))
	out = append(out, existing...)
	out = append(out, '|')
	out = append(out, operand...)
	return out
}

// Apply executes one batch on the model.
func (n *Node) Apply(b *BatchSpec) {
	if b == nil {
		return
	}
	for _, op := range b.Ops {
		k := string(op.K)
		switch op.Op {
		case "set":
			n.KV[k] = append([]byte{}, op.V...)
		case "del":
			delete(n.KV, k)
		case "merge":
			n.KV[k] = MergeFold(n.KV[k], op.V)
		}
	}
	for _, name := range b.DelKids {
		delete(n.Kids, name)
	}
	for _, name := range b.kidNames() {
		c, ok := n.Kids[name]
		if !ok {
			c = NewNode()
			n.Kids[name] = c
		}
		c.Apply(b.Kids[name])
	}
}

func (n *Node) Clone() *Node {
	c := NewNode()
	for k, v := range n.KV {
		c.KV[k] = append([]byte{}, v...)
	}
	for k, v := range n.Kids {
		c.Kids[k] = v.Clone()
	}
	return c
}

func (n *Node) SortedKeys() []string {
	ks := make([]string, 0, len(n.KV))
	for k := range n.KV {
		ks = append(ks, k)
	}
	sort.Strings(ks)
	return ks
}

func (n *Node) KidNames() []string {
	ks := make([]string, 0, len(n.Kids))
	for k := range n.Kids {
		ks = append(ks, k)
	}
	sort.Strings(ks)
	return ks
}

// Canon is a canonical text of the content (equal text <=> equal content).
func (n *Node) Canon() string {
	var b strings.Builder
	n.canon(&b)
	return b.String()
}

func (n *Node) canon(b *strings.Builder) {
	b.WriteString("{")
	for _, k := range n.SortedKeys() {
		fmt.Fprintf(b, "%q=%q;", k, string(n.KV[k]))
	}
	for _, c := range n.KidNames() {
		fmt.Fprintf(b, "<%q>", c)
		n.Kids[c].canon(b)
	}
	b.WriteString("}")
}

// TotalKeys counts live keys in the whole tree.
func (n *Node) TotalKeys() int {
	t := len(n.KV)
	for _, c := range n.Kids {
		t += c.TotalKeys()
	}
	return t
}

// Diff describes the first difference between two contents (for messages).
func (n *Node) Diff(o *Node, path string) string {
	for _, k := range n.SortedKeys() {
		ov, ok := o.KV[k]
		if !ok {
			return fmt.Sprintf("%s key %q: want %q, got absent", path, k, string(n.KV[k]))
		}
		if !bytes.Equal(ov, n.KV[k]) {
			return fmt.Sprintf("%s key %q: want %q, got %q", path, k, string(n.KV[k]), string(ov))
		}
	}
	for _, k := range o.SortedKeys() {
		if _, ok := n.KV[k]; !ok {
			return fmt.Sprintf("%s key %q: want absent, got %q", path, k, string(o.KV[k]))
		}
	}
	for _, c := range n.KidNames() {
		oc, ok := o.Kids[c]
		if !ok {
			return fmt.Sprintf("%s child %q: want present, got absent", path, c)
		}
		if d := n.Kids[c].Diff(oc, path+"/"+c); d != "" {
			return d
		}
	}
	for _, c := range o.KidNames() {
		if _, ok := n.Kids[c]; !ok {
			return fmt.Sprintf("%s child %q: want absent, got present", path, c)
		}
	}
	return ""
}

// History keeps model_0 .. model_n, one per acknowledged batch.
type History struct {
	Models []*Node
	canon  []string
	Specs  []*BatchSpec // Specs[i] produced Models[i]; nil for the initial state and for resets
}

func NewHistory() *History {
	h := &History{}
	h.push(NewNode())
	return h
}

func (h *History) push(n *Node) {
	h.Models = append(h.Models, n)
	h.canon = append(h.canon, n.Canon())
	h.Specs = append(h.Specs, nil)
}

// applyStructure executes only the structural part of a batch (child
// collections created / deleted), ignoring every key operation.
func (n *Node) applyStructure(b *BatchSpec) {
	if b == nil {
		return
	}
	for _, name := range b.DelKids {
		delete(n.Kids, name)
	}
	for _, name := range b.kidNames() {
		c, ok := n.Kids[name]
		if !ok {
			c = NewNode()
			n.Kids[name] = c
		}
		c.applyStructure(b.Kids[name])
	}
}

// PendingStructuralOnly: the batches after model_j have no surviving key
// operation - replaying only their structural part (child collections created
// / deleted) on model_j already gives model_n.  (A key operation of a pending
// batch does not survive when its child collection is deleted by a later
// pending batch.)
func (h *History) PendingStructuralOnly(j int) bool {
	if j >= h.N() {
		return false
	}
	r := h.Models[j].Clone()
	for i := j + 1; i <= h.N(); i++ {
		if h.Specs[i] == nil {
			return false
		}
		r.applyStructure(h.Specs[i])
	}
	return r.Canon() == h.Last().Canon()
}

func (h *History) Last() *Node { return h.Models[len(h.Models)-1] }
func (h *History) N() int      { return len(h.Models) - 1 }

// ApplyBatch appends model_{n+1} = model_n + batch.
func (h *History) ApplyBatch(b *BatchSpec) {
	n := h.Last().Clone()
	n.Apply(b)
	h.push(n)
	h.Specs[len(h.Specs)-1] = b
}

// ResetTo makes content c the new model (after a revert): appended as a new
// element so that prefix indices keep growing.
func (h *History) ResetTo(c *Node) { h.push(c.Clone()) }

// Match returns every j with model_j == content.
func (h *History) Match(content *Node) []int {
	c := content.Canon()
	var out []int
	for j, s := range h.canon {
		if s == c {
			out = append(out, j)
		}
	}
	return out
}

// Advance returns min{ j in J : j >= lb } or -1.
func Advance(lb int, J []int) int {
	best := -1
	for _, j := range J {
		if j >= lb && (best < 0 || j < best) {
			best = j
		}
	}
	return best
}
