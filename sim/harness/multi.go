package harness

import (
	"fmt"
	"os"
	"runtime"
	"sort"
	"strconv"
	"strings"
	"time"

	"github.com/anishathalye/porcupine"
	"github.com/couchbase/moss"
	"verifsim/simrt"
)

// ---------------------------------------------------------------------------
// generation of multi-driver cases (C03, C16, C17)

func writerPrefix(w int) string { return fmt.Sprintf("w%d/", w) }
func writerChild(w int) string  { return fmt.Sprintf("cw%d", w) }

func genMulti(c *Case, r *simrt.Rand, tier string) {
	cfg := genCfg{backings: []string{"mem", "store", "store", "mapll"}, concerns: []int{0, 1, 2}, idle: 0.1, tinyDirty: 0.3}
	if c.Prop == "C17" {
		cfg.idle = 0.35 // the idle waker is one more party of the permitted concurrency
	}
	c.Opts = genOpts(r, cfg)
	c.Opts.MaxPreMergerBatches = pick(r, []int{1, 1, 2, 2, 3})
	c.Policy = genPolicy(r)
	if (c.Prop == "C17" && r.Chance(0.5)) || (c.Prop != "C17" && r.Chance(0.15)) {
		// pre-emption also around moss's atomic operations
		c.Policy.AtomicYield = pick(r, []int{1, 1, 2, 4, 8})
	}
	if c.Policy.Sticky > 0.9 {
		c.Policy.Sticky = 0.9
	}
	c.Flags["multi"] = true
	if c.Prop == "C17" {
		c.Opts.SkipStats = false
		c.Opts.NaiveSeekMax = 0
	}
	nW := 2 + r.Intn(3)
	nR := 1 + r.Intn(3)
	maxB, maxS := 6, 8
	if tier == "thorough" {
		maxB, maxS = 12, 30
	}
	kids := r.Chance(0.5) && c.Opts.Backing != "mapll" && (kidsEverywhere || c.Opts.Backing == "mem")
	// Merge operations of an order-sensitive operator on a per-writer
	// accumulator key (top level and in the writer's child collection): the
	// folded value spells out the prefix of batches it stems from, so a torn,
	// doubled or reordered operand shows in the atomicity clause
	useMerge := r.Chance(0.35)
	for w := 0; w < nW; w++ {
		var prog []Op
		nb := 2 + r.Intn(maxB)
		for i := 1; i <= nb; i++ {
			b := &BatchSpec{}
			stamp := []byte(fmt.Sprintf("%d:%d", w, i))
			b.Ops = append(b.Ops, KV{Op: "set", K: []byte(writerPrefix(w) + "seq"), V: []byte(strconv.Itoa(i))})
			for k := 0; k < 4; k++ {
				key := []byte(fmt.Sprintf("%sp%d", writerPrefix(w), k))
				switch x := r.Intn(10); {
				case x < 5:
					b.Ops = append(b.Ops, KV{Op: "set", K: key, V: stamp})
				case x < 7:
					b.Ops = append(b.Ops, KV{Op: "del", K: key})
				}
			}
			if useMerge {
				acc := []byte(writerPrefix(w) + "acc")
				switch x := r.Intn(10); {
				case x < 6:
					b.Ops = append(b.Ops, KV{Op: "merge", K: acc, V: stamp})
				case x < 7:
					b.Ops = append(b.Ops, KV{Op: "set", K: acc, V: stamp})
				case x < 8:
					b.Ops = append(b.Ops, KV{Op: "del", K: acc})
				}
			}
			if kids && r.Chance(0.7) {
				cb := &BatchSpec{}
				if useMerge && r.Chance(0.5) {
					cb.Ops = append(cb.Ops, KV{Op: "merge", K: []byte("acc"), V: stamp})
				}
				for k := 0; k < 3; k++ {
					key := []byte(fmt.Sprintf("q%d", k))
					switch x := r.Intn(10); {
					case x < 6:
						cb.Ops = append(cb.Ops, KV{Op: "set", K: key, V: stamp})
					case x < 8:
						cb.Ops = append(cb.Ops, KV{Op: "del", K: key})
					}
				}
				if r.Chance(0.4) {
					// a grandchild of the writer's own child collection
					gb := &BatchSpec{Ops: []KV{{Op: "set", K: []byte("g0"), V: stamp}}}
					if r.Chance(0.5) {
						gb.Ops = append(gb.Ops, KV{Op: "set", K: []byte("g1"), V: stamp})
					}
					cb.Kids = map[string]*BatchSpec{"gc": gb}
				}
				b.Kids = map[string]*BatchSpec{writerChild(w): cb}
			}
			prog = append(prog, Op{Kind: "batch", B: b})
			if r.Chance(0.15) {
				prog = append(prog, Op{Kind: "notify", S: pick(r, []string{"", "mergeAll"}), Flag: r.Chance(0.5)})
			}
		}
		c.Drivers = append(c.Drivers, prog)
	}
	for rd := 0; rd < nR; rd++ {
		var prog []Op
		ns := 2 + r.Intn(maxS)
		for i := 0; i < ns; i++ {
			switch x := r.Intn(20); {
			case x < 10:
				prog = append(prog, Op{Kind: "readSnap"})
			case x < 14:
				prog = append(prog, Op{Kind: "getMarkers"})
			case x < 16:
				prog = append(prog, Op{Kind: "stats"})
			case x < 17 && c.Prop == "C17":
				prog = append(prog, Op{Kind: "histograms"})
			case x < 19 && c.Opts.Backing == "store":
				prog = append(prog, Op{Kind: "storeRead"})
			default:
				prog = append(prog, Op{Kind: "pause", N: 1 + r.Intn(20)})
			}
			if c.Opts.MergerIdleRunTimeoutMS > 0 && r.Chance(0.3) {
				prog = append(prog, Op{Kind: "clock", N: int(c.Opts.MergerIdleRunTimeoutMS) + r.Intn(3)})
			}
		}
		c.Drivers = append(c.Drivers, prog)
	}
	if kids && (c.Prop == "C16" || c.Prop == "C17") && r.Chance(0.5) {
		// a writer of child-only batches: they must be subject to the same
		// back-pressure as any other batch
		var prog []Op
		nb := 3 + r.Intn(2*maxB)
		for i := 0; i < nb; i++ {
			cb := &BatchSpec{Ops: []KV{{Op: "set", K: []byte(fmt.Sprintf("k%d", i%3)), V: []byte(fmt.Sprintf("x:%d", i))}}}
			prog = append(prog, Op{Kind: "childBatch", B: &BatchSpec{Kids: map[string]*BatchSpec{"cx": cb}}})
		}
		c.Drivers = append(c.Drivers, prog)
		c.Flags["childOnlyWriter"] = true
	}
	if (c.Prop == "C16" || c.Prop == "C17") && r.Chance(0.15) {
		// a burst of asynchronous notifications (more than the merger's ping
		// queue holds) from one or two drivers
		for d, nd := 0, 1+r.Intn(2); d < nd; d++ {
			var prog []Op
			for i, n := 0, 8+r.Intn(20); i < n; i++ {
				prog = append(prog, Op{Kind: "notify", S: pick(r, []string{"", "", "mergeAll"})})
				if r.Chance(0.1) {
					prog = append(prog, Op{Kind: "pause", N: 1 + r.Intn(40)})
				}
			}
			c.Drivers = append(c.Drivers, prog)
		}
		c.Flags["notifyStorm"] = true
	}
	if c.Prop == "C16" && r.Chance(0.12) {
		// a writer whose Merge operations the operator refuses: every merger
		// cycle that meets them fails.  Calls must still return and Close must
		// still be final.  (Readers only use point reads of the markers then.)
		var prog []Op
		nb := 2 + r.Intn(5)
		for i := 0; i < nb; i++ {
			prog = append(prog, Op{Kind: "childBatch", B: &BatchSpec{Ops: []KV{
				{Op: "merge", K: []byte(fmt.Sprintf("m/%d", i%2)), V: []byte("x")},
				{Op: "set", K: []byte(fmt.Sprintf("m/z%d", i)), V: []byte("y")}}}})
		}
		c.Drivers = append(c.Drivers, prog)
		c.Flags["failingMerge"] = true
		for i, d := range c.Drivers {
			for j, op := range d {
				if op.Kind == "readSnap" || op.Kind == "storeRead" {
					c.Drivers[i][j] = Op{Kind: "getMarkers"}
				}
			}
		}
		c.Flags["wantCloser"] = r.Chance(0.7)
	}
	c.Flags["nWriters"] = false
	c.VerifyAtomic = false
	c.Opts.MergeOp = useMerge
	// the number of writers is recoverable from the programs (writers issue batches)
	if c.Prop == "C16" || (c.Prop == "C17" && r.Chance(0.3)) {
		// a closer: Close at an arbitrary point, then the post-Close contract
		if r.Chance(0.6) || c.Flags["wantCloser"] {
			c.Drivers = append(c.Drivers, []Op{{Kind: "pause", N: 1 + r.Intn(300)}, {Kind: "closeColl"}, {Kind: "postClose"}})
		}
		delete(c.Flags, "wantCloser")
		if c.Opts.Backing == "mapll" && r.Chance(0.6) {
			nf := 1 + r.Intn(2)
			for i := 0; i < nf; i++ {
				c.Faults = append(c.Faults, Fault{At: r.Intn(4), Kind: pick(r, []string{"llu-err", "llu-stall", "llu-stall"}), Count: 1 + r.Intn(3), Frac: r.Intn(3000)})
			}
		}
		if c.Prop == "C16" && c.Opts.Backing == "store" && r.Chance(0.3) {
			// a mossStore lower level that fails now and then (transient write /
			// sync errors, a short burst, a stretch of ENOSPC): rounds fail, are
			// retried; once the faults have stopped every call must return
			nf := 1 + r.Intn(3)
			for i := 0; i < nf; i++ {
				c.Faults = append(c.Faults, Fault{At: r.Intn(90), Kind: pick(r, []string{"write-eio", "write-short", "sync-eio", "sync-eio", "write-enospc", "stat-eio", "open-eio"}),
					Count: pick(r, []int{1, 1, 2, 3, 8}), Frac: r.Intn(1000)})
			}
		}
		c.Flags["liveness"] = true
	}
}

// ---------------------------------------------------------------------------
// execution

type callRec struct {
	inv, ret int64
	idx      int // writer batch index (1-based); for reads: unused
	err      error
}

type pendingCall struct {
	what  string
	since int64
}

//go:norace
func (e *Exec) callBegin(id int, what string) {
	if e.md.inCall == nil {
		e.md.inCall = map[int]*pendingCall{}
	}
	e.md.inCall[id] = &pendingCall{what: what, since: simrt.Steps()}
}

//go:norace
func (e *Exec) callEnd(id int) { delete(e.md.inCall, id) }

// oldestCall: the API call that has been pending for the longest time.
//
//go:norace
func (e *Exec) oldestCall() (int, *pendingCall) {
	best, bid := (*pendingCall)(nil), -1
	ids := make([]int, 0, len(e.md.inCall))
	for id := range e.md.inCall {
		ids = append(ids, id)
	}
	sort.Ints(ids)
	for _, id := range ids {
		if c := e.md.inCall[id]; best == nil || c.since < best.since {
			best, bid = c, id
		}
	}
	return bid, best
}

type snapRec struct {
	inv, ret int64
	o        []int // observed batch index per writer (-1 = unknown)
	kind     string
	reader   int
}

type multiState struct {
	nW                 int
	whist              []*History  // per-writer models
	wcalls             [][]callRec // per writer, per batch
	snaps              []snapRec
	closed             bool
	closeInv, closeRet int64
	wg                 simrt.WaitGroup
	pending            int
	overlap            int
	kids               bool
	segsPerBatch       int
	inCall             map[int]*pendingCall // per driver: the moss API call it is inside of
}

func (e *Exec) isWriter(prog []Op) bool {
	for _, op := range prog {
		if op.Kind == "batch" {
			return true
		}
	}
	return false
}

//go:norace
func (e *Exec) runMulti() {
	md := &multiState{}
	e.md = md
	// writers come first in Drivers
	for _, p := range e.c.Drivers {
		if e.isWriter(p) {
			md.nW++
		}
	}
	for w := 0; w < md.nW; w++ {
		h := NewHistory()
		for _, op := range e.c.Drivers[w] {
			if op.Kind == "batch" {
				if len(op.B.Kids) > 0 {
					md.kids = true
				}
				if n := collectionsTouched(op.B); n > md.segsPerBatch {
					md.segsPerBatch = n
				}
				h.ApplyBatch(op.B)
			}
		}
		md.whist = append(md.whist, h)
		md.wcalls = append(md.wcalls, nil)
	}
	for i, p := range e.c.Drivers {
		i, p := i, p
		md.wg.Add(1)
		md.pending++
		simrt.GoDriver(fmt.Sprintf("d%d", i), func() {
			defer func() {
				if r := recover(); r != nil {
					if _, ok := r.(abortRun); !ok {
						panic(r)
					}
				}
				md.pending--
				md.wg.Done()
			}()
			e.driver(i, p)
		})
	}
	if e.flag("liveness") {
		e.livenessMonitor()
	}
	md.wg.Wait()
	if e.viol != nil {
		panic(abortRun{})
	}
	e.checkMultiHistory()
	if !md.closed && e.collOpen && !e.flag("failingMerge") {
		// final read: everything every writer executed is visible
		e.finalMultiRead()
	}
}

// livenessMonitor: once faults have stopped, every pending call returns within
// a bounded number of scheduling points of a fair schedule.
//
//go:norace
func (e *Exec) livenessMonitor() {
	md := e.md
	// let the random schedule run for a while first
	for i := 0; i < 40 && md.pending > 0; i++ {
		simrt.Quiesce(500, 0)
	}
	if md.pending == 0 {
		return
	}
	e.fs.StopFaults()
	if e.ll != nil {
		e.ll.stopFaults()
	}
	simrt.Fair(true)
	const bound = 60000
	start := simrt.Steps()
	errs0 := len(e.events.errors)
	idleRounds := 0
	var stuck *pendingCall
	stuckID := -1
	for md.pending > 0 {
		before := simrt.Steps()
		simrt.Quiesce(2000, 2)
		if e.viol != nil {
			simrt.Fair(false)
			return
		}
		// a moss API call (not the driver's own read loops) pending for too long?
		if id, c := e.oldestCall(); c != nil {
			since := c.since
			if since < start {
				since = start
			}
			if simrt.Steps()-since > bound {
				stuck, stuckID = c, id
				break
			}
		}
		if simrt.Steps() == before {
			// only timers fire (an idle waker sleeping again and again) while
			// the pending calls stay blocked: leave it to the deadlock detector
			idleRounds++
			if idleRounds > 20 {
				simrt.Fair(false)
				return
			}
		} else {
			idleRounds = 0
		}
		if !anyoneElseCanRun() {
			// nobody can make progress: leave it to the scheduler's deadlock
			// detector (the root blocks on the wait group next)
			simrt.Fair(false)
			return
		}
	}
	simrt.Fair(false)
	if stuck != nil && len(e.events.errors) > errs0 {
		// persistence rounds (or merger cycles) kept failing during the suffix,
		// e.g. because the application's merge operator refuses: the premise
		// "the lower level makes progress" does not hold, no verdict
		e.probe("liveness-premise-failed")
		return
	}
	if stuck != nil && e.viol == nil {
		if os.Getenv("VERIF_DEBUG") != "" {
			buf := make([]byte, 1<<20)
			n := runtime.Stack(buf, true)
			fmt.Fprintf(os.Stderr, "%s\n", buf[:n])
		}
		e.viol = &Violation{Prop: "C16", Class: "liveness", OpIdx: e.opIdx, Detail: e.detail(map[string]string{"symptom": "liveness", "call": stuck.what}),
			Msg: fmt.Sprintf("%s of driver %d has not returned %d fair scheduling points after faults stopped:\n%s", stuck.what, stuckID, simrt.Steps()-stuck.since, simrt.DumpTasks())}
		panic(abortRun{})
	}
	e.probe("liveness-suffix-used")
}

func anyoneElseCanRun() bool { return simrt.OthersEligibleOrTimers() }

//go:norace
func (e *Exec) driver(id int, prog []Op) {
	md := e.md
	for i, op := range prog {
		if e.viol != nil {
			return
		}
		_ = i
		switch op.Kind {
		case "batch":
			if md.closed {
				return
			}
			w := id
			idx := len(md.wcalls[w]) + 1
			b, err := e.coll.NewBatch(batchHints(op.B))
			if err != nil {
				if err == moss.ErrClosed {
					return
				}
				e.fail("batch-error", "NewBatch: %v", err)
			}
			e.fillBatch(b, op.B, true)
			rec := callRec{inv: simrt.Steps(), idx: idx}
			md.wcalls[w] = append(md.wcalls[w], rec)
			e.callBegin(id, "ExecuteBatch")
			err = e.coll.ExecuteBatch(b, moss.WriteOptions{})
			e.callEnd(id)
			rc := &md.wcalls[w][idx-1]
			rc.ret = simrt.Steps()
			rc.err = err
			b.Close()
			if err != nil {
				if err == moss.ErrClosed {
					if !md.closed && md.closeInv == 0 {
						e.fail("closed-error", "ExecuteBatch returned ErrClosed although Close was never called")
					}
					e.probe("writer-released-by-close")
					return
				}
				e.fail("batch-error", "ExecuteBatch: %v", err)
			}
			if md.closeRet > 0 && rc.inv > md.closeRet {
				e.failD("close-not-final", map[string]string{"symptom": "batch-after-close"},
					"ExecuteBatch of a non-empty batch invoked after Close returned succeeded (want ErrClosed)")
			}
		case "childBatch":
			if md.closed {
				return
			}
			b, err := e.coll.NewBatch(0, 0)
			if err != nil {
				return
			}
			e.fillBatch(b, op.B, true)
			e.callBegin(id, "ExecuteBatch")
			err = e.coll.ExecuteBatch(b, moss.WriteOptions{})
			e.callEnd(id)
			b.Close()
			if err != nil {
				return
			}
			md.kids = true
			if md.segsPerBatch < 2 {
				md.segsPerBatch = 2
			}
			e.probe("child-only-batch")
		case "notify":
			if md.closeInv > 0 {
				continue
			}
			e.callBegin(id, "NotifyMerger")
			e.coll.(interface {
				NotifyMerger(string, bool) error
			}).NotifyMerger(op.S, op.Flag)
			e.callEnd(id)
		case "pause":
			simrt.Quiesce(int64(op.N), 0)
		case "clock":
			// time passes while everybody is busy (the idle waker's nap ends)
			simrt.AdvanceClock(msDur(op.N))
		case "readSnap":
			e.readSnap(id)
		case "getMarkers":
			e.getMarkers(id)
		case "stats":
			e.statsSample()
		case "histograms":
			if !md.closed {
				hs := e.coll.Histograms()
				_ = hs
			}
		case "storeRead":
			if e.store != nil && !md.closed {
				if ss, err := e.store.Snapshot(); err == nil && ss != nil {
					dumpSnapshot(ss)
					ss.Close()
				}
				e.store.Stats()
			}
		case "closeColl":
			md.closeInv = simrt.Steps()
			e.callBegin(id, "Close")
			e.coll.Close()
			e.callEnd(id)
			md.closeRet = simrt.Steps()
			md.closed = true
			e.collOpen = false
			e.probe("close-while-running")
		case "postClose":
			e.postCloseCalls()
		}
	}
}

//go:norace
func (e *Exec) postCloseCalls() {
	if e.collOpen || e.coll == nil {
		return
	}
	e.out.Checks++
	if _, err := e.coll.NewBatch(0, 0); err != moss.ErrClosed {
		e.failD("close-not-final", map[string]string{"symptom": "newbatch-after-close"}, "NewBatch after Close: err=%v, want ErrClosed", err)
	}
	if ss, err := e.coll.Snapshot(); err != moss.ErrClosed {
		if ss != nil {
			ss.Close()
		}
		e.failD("close-not-final", map[string]string{"symptom": "snapshot-after-close"}, "Snapshot after Close: err=%v, want ErrClosed", err)
	}
	if _, err := e.coll.Get([]byte("w0/seq"), moss.ReadOptions{}); err != moss.ErrClosed {
		e.failD("close-not-final", map[string]string{"symptom": "get-after-close"}, "Get after Close: err=%v, want ErrClosed", err)
	}
}

// observed extracts, for writer w, the content of its keys from a dumped snapshot.
func writerView(n *Node, w int) *Node {
	v := NewNode()
	p := writerPrefix(w)
	for k, val := range n.KV {
		if strings.HasPrefix(k, p) {
			v.KV[k] = val
		}
	}
	if c, ok := n.Kids[writerChild(w)]; ok {
		v.Kids[writerChild(w)] = c
	}
	return v
}

//go:norace
func (e *Exec) readSnap(reader int) {
	md := e.md
	if md.closed {
		return
	}
	rec := snapRec{inv: simrt.Steps(), kind: "snapshot", reader: reader}
	e.callBegin(reader, "Snapshot")
	ss, err := e.coll.Snapshot()
	e.callEnd(reader)
	rec.ret = simrt.Steps()
	if err != nil {
		if err == moss.ErrClosed && md.closeInv > 0 {
			return
		}
		e.fail("snapshot-error", "Snapshot: %v", err)
	}
	content, err := dumpSnapshot(ss)
	if err != nil {
		ss.Close()
		e.failD("snapshot-read-error", map[string]string{"symptom": "error"}, "reading a snapshot: %v", err)
	}
	e.out.Checks++
	for w := 0; w < md.nW; w++ {
		view := writerView(content, w)
		o := 0
		if mv, ok := view.KV[writerPrefix(w)+"seq"]; ok {
			o, _ = strconv.Atoi(string(mv))
		}
		h := md.whist[w]
		if o < 0 || o > h.N() {
			ss.Close()
			e.failD("atomicity", map[string]string{"symptom": "bad-marker"}, "snapshot shows marker %d for writer %d which has only %d batches", o, w, h.N())
		}
		want := writerView(h.Models[o], w)
		if want.Canon() != view.Canon() {
			d := want.Diff(view, "")
			ss.Close()
			e.failD("atomicity", map[string]string{"symptom": "torn-batch", "diff": d},
				"snapshot shows writer %d at batch %d (marker) but its other keys are not the state after exactly %d batches: %s", w, o, o, d)
		}
		rec.o = append(rec.o, o)
	}
	// point reads agree with the snapshot's own iteration
	if m := equalContent(ss, content, nil, ""); m != nil {
		ss.Close()
		e.failD("atomicity", map[string]string{"symptom": "get-iter-disagree"}, "snapshot point reads disagree with its own iteration: %s", m)
	}
	ss.Close()
	md.snaps = append(md.snaps, rec)
}

//go:norace
func (e *Exec) getMarkers(reader int) {
	md := e.md
	if md.closed {
		return
	}
	for w := 0; w < md.nW; w++ {
		rec := snapRec{inv: simrt.Steps(), kind: "get", reader: reader, o: make([]int, md.nW)}
		for i := range rec.o {
			rec.o[i] = -1
		}
		e.callBegin(reader, "Get")
		v, err := e.coll.Get([]byte(writerPrefix(w)+"seq"), moss.ReadOptions{})
		e.callEnd(reader)
		rec.ret = simrt.Steps()
		if err != nil {
			if err == moss.ErrClosed && md.closeInv > 0 {
				return
			}
			e.fail("get-error", "Collection.Get: %v", err)
		}
		o := 0
		if v != nil {
			o, _ = strconv.Atoi(string(v))
		}
		rec.o[w] = o
		md.snaps = append(md.snaps, rec)
		if e.opts.MergeOp && !e.flag("failingMerge") && md.closeInv == 0 {
			e.getAcc(reader, w)
		}
	}
}

// getAcc: a direct Collection.Get of writer w's accumulator key (Merge
// operations folded at read time across top/mid/base/lower level, while merger
// and persister move them) must return the fold after some prefix of w's
// batches that the real-time order allows.
//
//go:norace
func (e *Exec) getAcc(reader, w int) {
	md := e.md
	key := writerPrefix(w) + "acc"
	inv := simrt.Steps()
	e.callBegin(reader, "Get")
	v, err := e.coll.Get([]byte(key), moss.ReadOptions{})
	e.callEnd(reader)
	ret := simrt.Steps()
	if err != nil || md.closeInv > 0 {
		return
	}
	lo, hi := 0, 0
	for _, c := range md.wcalls[w] {
		if c.err != nil {
			continue
		}
		if c.ret > 0 && c.ret < inv && c.idx > lo {
			lo = c.idx
		}
		if c.inv < ret && c.idx > hi {
			hi = c.idx
		}
	}
	e.out.Checks++
	h := md.whist[w]
	var seen []string
	for o := lo; o <= hi && o <= h.N(); o++ {
		want, ok := h.Models[o].KV[key]
		if (!ok && v == nil) || (ok && v != nil && string(want) == string(v)) {
			e.probe("concurrent-merge-fold-read")
			return
		}
		if ok {
			seen = append(seen, fmt.Sprintf("%d:%q", o, string(want)))
		} else {
			seen = append(seen, fmt.Sprintf("%d:absent", o))
		}
	}
	got := "absent"
	if v != nil {
		got = fmt.Sprintf("%q", string(v))
	}
	e.failD("visibility", map[string]string{"symptom": "merge-fold"},
		"Collection.Get(%q) (reader %d, steps %d..%d) returns %s, which is the fold after none of the prefixes %d..%d of writer %d that the real-time order allows (%s)",
		key, reader, inv, ret, got, lo, hi, w, strings.Join(seen, ", "))
}

//go:norace
func (e *Exec) statsSample() {
	md := e.md
	if md.closed {
		return
	}
	st, err := e.coll.Stats()
	if err != nil || st == nil {
		return
	}
	limit := e.opts.MaxPreMergerBatches
	if limit <= 0 {
		limit = 10
	}
	if e.md.segsPerBatch > 1 {
		// the gauge counts the segments of every collection level a batch
		// touches (top level, child, grandchild)
		limit *= e.md.segsPerBatch
	}
	e.out.Checks++
	if int(st.CurDirtyTopSegments) > limit {
		e.failD("backpressure", map[string]string{"symptom": "top-over-limit"},
			"Stats().CurDirtyTopSegments = %d exceeds MaxPreMergerBatches = %d", st.CurDirtyTopSegments, limit)
	}
	if st.CurDirtyTopSegments >= uint64(limit) {
		e.probe("top-at-limit")
	}
}

// checkMultiHistory evaluates real-time order and monotonicity over the
// recorded history, directly and with porcupine as a cross-check.
//
//go:norace
func (e *Exec) checkMultiHistory() {
	md := e.md
	snaps := md.snaps
	for w := 0; w < md.nW; w++ {
		calls := md.wcalls[w]
		for _, s := range snaps {
			if w >= len(s.o) || s.o[w] < 0 {
				continue
			}
			if md.closeInv > 0 && s.ret >= md.closeInv {
				continue // overlaps Close: only the ErrClosed contract applies (C16)
			}
			o := s.o[w]
			lo, hi := 0, 0
			for _, c := range calls {
				if c.err != nil {
					continue
				}
				if c.ret > 0 && c.ret < s.inv && c.idx > lo {
					lo = c.idx
				}
				if c.inv < s.ret && c.idx > hi {
					hi = c.idx
				}
			}
			if o < lo {
				e.failD("visibility", map[string]string{"symptom": "stale-read"},
					"%s (reader %d, steps %d..%d) shows writer %d at batch %d although ExecuteBatch #%d had returned before it was invoked", s.kind, s.reader, s.inv, s.ret, w, o, lo)
			}
			if o > hi {
				e.failD("visibility", map[string]string{"symptom": "future-read"},
					"%s (steps %d..%d) shows writer %d at batch %d, but only %d batches had been invoked by then", s.kind, s.inv, s.ret, w, o, hi)
			}
			if lo < hi {
				md.overlap++
			}
		}
		// monotone in real time
		for i := range snaps {
			for j := range snaps {
				a, b := snaps[i], snaps[j]
				if w >= len(a.o) || w >= len(b.o) || a.o[w] < 0 || b.o[w] < 0 {
					continue
				}
				if a.ret < b.inv && b.o[w] < a.o[w] {
					e.failD("visibility", map[string]string{"symptom": "prefix-shrank"},
						"writer %d: a %s that returned at step %d saw batch %d, a later %s invoked at step %d saw only batch %d", w, a.kind, a.ret, a.o[w], b.kind, b.inv, b.o[w])
				}
			}
		}
	}
	if md.overlap > 0 {
		e.out.Probes["concurrent-overlap"] += md.overlap
		e.out.Probes["bg-step-between-ops"]++
	}
	e.porcupineCheck()
}

type regIn struct {
	write bool
	v     int
}

// porcupineCheck feeds the same history to porcupine: per writer a register
// that is only ever written with increasing values.
func (e *Exec) porcupineCheck() {
	md := e.md
	model := porcupine.Model{
		Init: func() interface{} { return 0 },
		Step: func(state, input, output interface{}) (bool, interface{}) {
			in := input.(regIn)
			if in.write {
				return true, in.v
			}
			return output.(int) == state.(int), state
		},
	}
	for w := 0; w < md.nW; w++ {
		var ops []porcupine.Operation
		id := 0
		for _, c := range md.wcalls[w] {
			if c.err != nil || c.ret == 0 {
				continue
			}
			ops = append(ops, porcupine.Operation{ClientId: 0, Input: regIn{true, c.idx}, Call: c.inv, Output: 0, Return: c.ret})
		}
		for _, s := range md.snaps {
			if w >= len(s.o) || s.o[w] < 0 {
				continue
			}
			if md.closeInv > 0 && s.ret >= md.closeInv {
				continue // overlaps Close: only the ErrClosed contract applies
			}
			id++
			ops = append(ops, porcupine.Operation{ClientId: 1 + s.reader, Input: regIn{false, 0}, Call: s.inv, Output: s.o[w], Return: s.ret})
		}
		if len(ops) == 0 || len(ops) > 200 {
			continue
		}
		res := porcupine.CheckOperationsTimeout(model, ops, 5*time.Second)
		if res == porcupine.Illegal {
			e.failD("visibility", map[string]string{"symptom": "not-linearizable"},
				"porcupine: the history of writer %d's marker register (%d operations) is not linearizable", w, len(ops))
		}
		if res == porcupine.Ok {
			e.probe("porcupine-ok")
		}
	}
}

//go:norace
func (e *Exec) finalMultiRead() {
	md := e.md
	simrt.Quiesce(20000, 0)
	ss, err := e.coll.Snapshot()
	if err != nil {
		e.fail("snapshot-error", "Snapshot: %v", err)
	}
	defer ss.Close()
	content, err := dumpSnapshot(ss)
	if err != nil {
		e.failD("snapshot-read-error", map[string]string{"symptom": "error"}, "reading the final snapshot: %v", err)
	}
	for w := 0; w < md.nW; w++ {
		done := 0
		for _, c := range md.wcalls[w] {
			if c.err == nil && c.ret > 0 {
				done = c.idx
			}
		}
		want := writerView(md.whist[w].Models[done], w)
		got := writerView(content, w)
		if want.Canon() != got.Canon() {
			e.failD("visibility", map[string]string{"symptom": "final-mismatch", "diff": want.Diff(got, "")},
				"after all drivers finished writer %d's keys are not the state after its %d executed batches: %s", w, done, want.Diff(got, ""))
		}
	}
	var keys []string
	for k := range content.KV {
		keys = append(keys, k)
	}
	sort.Strings(keys)
	_ = keys
}

// collectionsTouched: number of collections (levels) a batch writes to.
func collectionsTouched(b *BatchSpec) int {
	if b == nil {
		return 0
	}
	n := 0
	if len(b.Ops) > 0 {
		n = 1
	}
	for _, c := range b.Kids {
		n += collectionsTouched(c)
	}
	return n
}
