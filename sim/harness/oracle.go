package harness

import (
	"bytes"
	"fmt"
	"sort"

	"github.com/couchbase/moss"
	"verifsim/simrt"
)

// mergeOp is the order-sensitive, never-nil merge operator used by the harness.
type mergeOp struct{}

// mergeRefuseTask: while set, the operator refuses every merge it is asked for
// by that task (the driver, around one Collection.Get of its own: an
// application's operator may refuse, the read then fails - and must not damage
// anything else).  Merges on behalf of other tasks are not affected.
var mergeRefuseTask *simrt.Task

// mergeRefuseBg: number of merges of background tasks still to be refused;
// mergeRefusedBg counts the refusals that happened (reach probe).
var mergeRefuseBg, mergeRefusedBg int

// oracleDepth > 0 while the harness itself reads inside one of moss's tasks
// (round callback): those reads are never refused.  mergeRefusedHook lets the
// run count a refusal as an injected fault.
var oracleDepth int
var mergeRefusedHook func()

func (mergeOp) Name() string { return "verif-append" }
func (mergeOp) FullMerge(key, existing []byte, operands [][]byte) ([]byte, bool) {
	if mergeRefuseTask != nil && simrt.Cur() == mergeRefuseTask {
		return nil, false
	}
	if mergeRefuseBg > 0 {
		// the next merge asked for by a background task (merger cycle,
		// persistence round, compaction) is refused once: that cycle or round
		// fails and is retried
		if t := simrt.Cur(); t != nil && !t.Driver && oracleDepth == 0 {
			mergeRefuseBg--
			mergeRefusedBg++
			if mergeRefusedHook != nil {
				mergeRefusedHook()
			}
			return nil, false
		}
	}
	// The "keep" operand ("=") leaves the value as it is: with only such
	// operands the operator hands back the very slice it was given (as a max
	// or put-if-absent operator would), otherwise a fresh one.
	out, own := existing, false
	for _, o := range operands {
		if len(o) == 1 && o[0] == '=' {
			if out == nil {
				out, own = []byte{}, true
			}
			continue
		}
		if !own {
			out, own = append([]byte{}, out...), true
		}
		out = MergeFold(out, o)
	}
	if out == nil {
		out = []byte{}
	}
	return out, true
}
func (mergeOp) PartialMerge(key, l, r []byte) ([]byte, bool) { return nil, false }

// failingMergeOp refuses to merge keys of the "m/" family (C16: a merger whose
// cycles fail must still answer notifications and stop at Close).
type failingMergeOp struct{ mergeOp }

func (failingMergeOp) FullMerge(key, existing []byte, operands [][]byte) ([]byte, bool) {
	if len(key) >= 2 && key[0] == 'm' && key[1] == '/' {
		return nil, false
	}
	return mergeOp{}.FullMerge(key, existing, operands)
}

// dumpSnapshot reads the full content of a snapshot by iteration (recursively
// through child collections).
func dumpSnapshot(ss moss.Snapshot) (*Node, error) {
	n := NewNode()
	if ss == nil {
		return n, nil
	}
	it, err := ss.StartIterator(nil, nil, moss.IteratorOptions{})
	if err != nil {
		return nil, fmt.Errorf("StartIterator: %v", err)
	}
	if it != nil {
		for {
			k, v, err := it.Current()
			if err == moss.ErrIteratorDone {
				break
			}
			if err != nil {
				it.Close()
				return nil, fmt.Errorf("iterator Current: %v", err)
			}
			if len(k) >= bigKeyMin {
				// boundary-length entry, judged by checkBig
				err = it.Next()
				if err == moss.ErrIteratorDone {
					break
				}
				if err != nil {
					it.Close()
					return nil, fmt.Errorf("iterator Next: %v", err)
				}
				continue
			}
			if _, dup := n.KV[string(k)]; dup {
				it.Close()
				return nil, fmt.Errorf("iterator yielded key %q twice", string(k))
			}
			if v == nil {
				v = []byte(nil)
			}
			n.KV[string(k)] = append([]byte{}, v...)
			err = it.Next()
			if err == moss.ErrIteratorDone {
				break
			}
			if err != nil {
				it.Close()
				return nil, fmt.Errorf("iterator Next: %v", err)
			}
		}
		it.Close()
	}
	names, err := ss.ChildCollectionNames()
	if err != nil {
		return nil, fmt.Errorf("ChildCollectionNames: %v", err)
	}
	sort.Strings(names)
	for _, name := range names {
		cs, err := ss.ChildCollectionSnapshot(name)
		if err != nil {
			return nil, fmt.Errorf("ChildCollectionSnapshot(%q): %v", name, err)
		}
		if cs == nil {
			return nil, fmt.Errorf("ChildCollectionSnapshot(%q) is nil although the name is listed", name)
		}
		c, err := dumpSnapshot(cs)
		cs.Close()
		if err != nil {
			return nil, fmt.Errorf("child %q: %v", name, err)
		}
		n.Kids[name] = c
	}
	return n, nil
}

// mismatch is the result of equalContent.
type mismatch struct {
	Path   string // collection path
	Key    string
	Kind   string // missing | stale | extra | nil-vs-empty | order | child-missing | child-extra | error | sticky-done | get-iter-disagree
	Detail string
}

func (m *mismatch) String() string {
	return fmt.Sprintf("[%s] %s key=%q: %s", m.Kind, m.Path, m.Key, m.Detail)
}

// equalContent compares a snapshot with the model: point lookups under both
// NoCopyValue settings for every probe key, a full ascending iteration, and
// the same recursively for child collections (names compared as a set).
func equalContent(ss moss.Snapshot, want *Node, probes []string, path string) *mismatch {
	if ss == nil {
		if len(want.KV) == 0 && len(want.Kids) == 0 {
			return nil
		}
		return &mismatch{Path: path, Kind: "error", Detail: "snapshot is nil"}
	}
	// point lookups
	seen := map[string]bool{}
	keys := append([]string{}, probes...)
	keys = append(keys, want.SortedKeys()...)
	for _, k := range keys {
		if seen[k] {
			continue
		}
		seen[k] = true
		wv, live := want.KV[k]
		for _, nocopy := range []bool{false, true} {
			got, err := ss.Get([]byte(k), moss.ReadOptions{NoCopyValue: nocopy})
			if err != nil {
				return &mismatch{Path: path, Key: k, Kind: "error", Detail: fmt.Sprintf("Get(nocopy=%v): %v", nocopy, err)}
			}
			if m := cmpVal(path, k, wv, live, got, fmt.Sprintf("Get(nocopy=%v)", nocopy)); m != nil {
				return m
			}
		}
	}
	// full iteration
	it, err := ss.StartIterator(nil, nil, moss.IteratorOptions{})
	if err != nil {
		return &mismatch{Path: path, Kind: "error", Detail: fmt.Sprintf("StartIterator: %v", err)}
	}
	wk := want.SortedKeys()
	i := 0
	if it != nil {
		defer it.Close()
		var prev []byte
		first := true
		for {
			k, v, err := it.Current()
			if err == moss.ErrIteratorDone {
				break
			}
			if err != nil {
				return &mismatch{Path: path, Kind: "error", Detail: fmt.Sprintf("iterator Current: %v", err)}
			}
			if !first && bytes.Compare(prev, k) >= 0 {
				return &mismatch{Path: path, Key: string(k), Kind: "order", Detail: fmt.Sprintf("iteration not strictly ascending: %q after %q", string(k), string(prev))}
			}
			first = false
			if len(k) >= bigKeyMin {
				prev = k // stays valid while the snapshot is open; not worth a 16 MiB copy
				// boundary-length entry, judged by checkBig
				err = it.Next()
				if err == moss.ErrIteratorDone {
					break
				}
				if err != nil {
					return &mismatch{Path: path, Kind: "error", Detail: fmt.Sprintf("iterator Next: %v", err)}
				}
				continue
			}
			prev = append([]byte(nil), k...)
			if i >= len(wk) || wk[i] != string(k) {
				if _, live := want.KV[string(k)]; !live {
					return &mismatch{Path: path, Key: string(k), Kind: "extra", Detail: fmt.Sprintf("iteration yields %q=%q, reference has no such key", string(k), string(v))}
				}
				return &mismatch{Path: path, Key: wk[i], Kind: "missing", Detail: fmt.Sprintf("iteration skips live key %q (next yielded %q)", wk[i], string(k))}
			}
			if m := cmpVal(path, wk[i], want.KV[wk[i]], true, v, "iterator"); m != nil {
				return m
			}
			i++
			err = it.Next()
			if err == moss.ErrIteratorDone {
				break
			}
			if err != nil {
				return &mismatch{Path: path, Kind: "error", Detail: fmt.Sprintf("iterator Next: %v", err)}
			}
		}
		// done must be sticky
		if _, _, err := it.Current(); err != moss.ErrIteratorDone {
			return &mismatch{Path: path, Kind: "sticky-done", Detail: fmt.Sprintf("Current after exhaustion: err=%v", err)}
		}
		if err := it.Next(); err != moss.ErrIteratorDone {
			return &mismatch{Path: path, Kind: "sticky-done", Detail: fmt.Sprintf("Next after exhaustion: err=%v", err)}
		}
	}
	if i < len(wk) {
		return &mismatch{Path: path, Key: wk[i], Kind: "missing", Detail: fmt.Sprintf("iteration ends before live key %q", wk[i])}
	}
	// children
	names, err := ss.ChildCollectionNames()
	if err != nil {
		return &mismatch{Path: path, Kind: "error", Detail: fmt.Sprintf("ChildCollectionNames: %v", err)}
	}
	got := map[string]bool{}
	for _, n := range names {
		if got[n] {
			return &mismatch{Path: path, Key: n, Kind: "child-extra", Detail: "child name listed twice"}
		}
		got[n] = true
		if _, ok := want.Kids[n]; !ok {
			return &mismatch{Path: path, Key: n, Kind: "child-extra", Detail: "child collection listed, reference has none of that name"}
		}
	}
	for _, n := range want.KidNames() {
		if !got[n] {
			return &mismatch{Path: path, Key: n, Kind: "child-missing", Detail: "child collection of the reference is not listed"}
		}
		cs, err := ss.ChildCollectionSnapshot(n)
		if err != nil {
			return &mismatch{Path: path, Key: n, Kind: "error", Detail: fmt.Sprintf("ChildCollectionSnapshot: %v", err)}
		}
		if cs == nil {
			return &mismatch{Path: path, Key: n, Kind: "child-missing", Detail: "ChildCollectionSnapshot returned nil for a listed child"}
		}
		m := equalContent(cs, want.Kids[n], probes, path+"/"+n)
		cs.Close()
		if m != nil {
			return m
		}
	}
	return nil
}

func cmpVal(path, k string, wv []byte, live bool, got []byte, how string) *mismatch {
	if !live {
		if got != nil {
			return &mismatch{Path: path, Key: k, Kind: "extra", Detail: fmt.Sprintf("%s returns %q, reference has the key absent/deleted", how, string(got))}
		}
		return nil
	}
	if got == nil {
		if len(wv) == 0 {
			return &mismatch{Path: path, Key: k, Kind: "nil-vs-empty", Detail: fmt.Sprintf("%s returns nil, reference holds an empty (non-nil) value", how)}
		}
		return &mismatch{Path: path, Key: k, Kind: "missing", Detail: fmt.Sprintf("%s returns nil, reference holds %q", how, string(wv))}
	}
	if !bytes.Equal(got, wv) {
		return &mismatch{Path: path, Key: k, Kind: "stale", Detail: fmt.Sprintf("%s returns %q, reference holds %q", how, string(got), string(wv))}
	}
	return nil
}
