package harness

import (
	"encoding/json"
	"fmt"
	"sort"
	"strings"
)

// KV is one mutation of a batch.
type KV struct {
	Op    string `json:"op"` // set | del | merge
	K     []byte `json:"k"`
	V     []byte `json:"v,omitempty"`
	Alloc bool   `json:"alloc,omitempty"` // build with Alloc/AllocSet...
}

// BatchSpec is a batch with (recursively) child batches and child deletions.
type BatchSpec struct {
	Ops     []KV                  `json:"ops,omitempty"`
	Kids    map[string]*BatchSpec `json:"kids,omitempty"`
	DelKids []string              `json:"delkids,omitempty"`
	// AllocLate: how the Alloc-built operations of this batch are registered.
	// 0: Alloc + AllocSet/Del/Merge one by one; 1: every Alloc first (plain
	// operations in between), the registrations afterwards in reverse order;
	// 2: one Alloc carved up for all of them, registered afterwards
	AllocLate int `json:"allocLate,omitempty"`
}

func (b *BatchSpec) kidNames() []string {
	out := make([]string, 0, len(b.Kids))
	for k := range b.Kids {
		out = append(out, k)
	}
	sort.Strings(out)
	return out
}

// Opts is the option vector of a run.
type Opts struct {
	Backing string `json:"backing"` // mem | store | mapll

	MinMergePercentage     float64 `json:"minMergePct,omitempty"`
	MaxPreMergerBatches    int     `json:"maxPreMerger,omitempty"`
	MergerCancelCheckEvery int     `json:"cancelEvery,omitempty"`
	MergerIdleRunTimeoutMS int64   `json:"idleMS,omitempty"`
	DeferredSort           bool    `json:"deferredSort,omitempty"`
	CachePersisted         bool    `json:"cachePersisted,omitempty"`
	MaxDirtyOps            uint64  `json:"maxDirtyOps,omitempty"`
	MaxDirtyKeyValBytes    uint64  `json:"maxDirtyBytes,omitempty"`
	MergeOp                bool    `json:"mergeOp,omitempty"`
	ReadOnly               bool    `json:"readOnly,omitempty"`

	Concern              int     `json:"concern,omitempty"`
	CompactionPercentage float64 `json:"compactPct,omitempty"`
	LevelMaxSegments     int     `json:"levelMaxSegs,omitempty"`
	LevelMultiplier      int     `json:"levelMult,omitempty"`
	BufferPages          int     `json:"bufPages,omitempty"`
	CompactionSync       bool    `json:"compactSync,omitempty"`
	SyncAfterBytes       int     `json:"syncAfterBytes,omitempty"`
	NoSync               bool    `json:"noSync,omitempty"`
	IdxMaxBytes          int     `json:"idxMaxBytes,omitempty"`
	IdxMinKeyBytes       int     `json:"idxMinKeyBytes,omitempty"`
	KeepFiles            bool    `json:"keepFiles,omitempty"`
	NaiveSeekMax         int     `json:"naiveSeekMax,omitempty"`
	SkipStats            bool    `json:"skipStats,omitempty"`
	NoLLInit             bool    `json:"noLLInit,omitempty"` // custom lower level: no LowerLevelInit snapshot (it starts empty)
}

// Op is one step of a driver program.
type Op struct {
	Kind string     `json:"kind"`
	B    *BatchSpec `json:"b,omitempty"`
	S    string     `json:"s,omitempty"` // string argument (notify kind, handle kind, ...)
	N    int        `json:"n,omitempty"` // numeric argument
	M    int        `json:"m,omitempty"` // second numeric argument
	Flag bool       `json:"flag,omitempty"`
	K    []byte     `json:"k,omitempty"`
	K2   []byte     `json:"k2,omitempty"`
	O    *Opts      `json:"o,omitempty"` // new options for reopen
	Prog []IterOp   `json:"prog,omitempty"`
}

// IterOp is one step of an iterator program (C09).
type IterOp struct {
	Kind string `json:"kind"` // next | seek | current
	K    []byte `json:"k,omitempty"`
}

// Fault is one entry of the fault plan.
type Fault struct {
	At    int    `json:"at"`              // file-op index (counted over fault-eligible ops)
	Kind  string `json:"kind"`            // write-eio | write-short | write-enospc | sync-eio | stat-eio | open-eio | remove-eio | readdir-eio | llu-err | llu-stall
	Count int    `json:"count,omitempty"` // burst length (default 1); -1 = persistent until Until
	Until int    `json:"until,omitempty"` // op index at which a persistent fault stops (0 = never)
	Frac  int    `json:"frac,omitempty"`  // short write: per-mille of the buffer that reaches the file
}

// Case is everything that defines one run.
type Case struct {
	Prop         string          `json:"prop"`
	Index        int             `json:"index"`
	Seed         uint64          `json:"seed"`      // base seed (VERIF_SEED)
	SchedSeed    uint64          `json:"schedSeed"` // seed of the scheduler PRNG
	Policy       PolicySpec      `json:"policy"`
	MaxSteps     int64           `json:"maxSteps,omitempty"`
	Opts         Opts            `json:"opts"`
	Prog         []Op            `json:"prog,omitempty"`
	Drivers      [][]Op          `json:"drivers,omitempty"` // multi-driver programs
	Faults       []Fault         `json:"faults,omitempty"`
	Flags        map[string]bool `json:"flags,omitempty"`     // oracle switches
	ROProg       []Op            `json:"roProg,omitempty"`    // C18: program run against the read-only collection
	Decisions    []uint32        `json:"decisions,omitempty"` // optional decision log to follow
	QuietTail    bool            `json:"quietTail,omitempty"` // after the log: every decision 0 instead of PRNG draws (minimised schedules)
	VerifyAtomic bool            `json:"verifyAtomic,omitempty"`
}

// PolicySpec mirrors simrt.Policy for JSON.
type PolicySpec struct {
	Kind     string  `json:"kind"`
	Sticky   float64 `json:"sticky,omitempty"`
	DriverW  int     `json:"driverW,omitempty"`
	BgW      int     `json:"bgW,omitempty"`
	PAdvance float64 `json:"pAdvance,omitempty"`
	PctD     int     `json:"pctD,omitempty"`
	Horizon  int64   `json:"horizon,omitempty"`
	// every n-th atomic operation of moss is a scheduling point (before and after)
	AtomicYield int `json:"atomicYield,omitempty"`
}

// Violation is what an oracle reports.
type Violation struct {
	Prop   string            `json:"prop"`
	Class  string            `json:"class"`            // stable, coarse: used to decide "same violation" while minimising
	Msg    string            `json:"msg"`              // human readable detail
	OpIdx  int               `json:"opIdx"`            // program index at which it was detected
	Detail map[string]string `json:"detail,omitempty"` // trigger/symptom facts for known-finding matching
	Stack  string            `json:"stack,omitempty"`
}

func (v *Violation) String() string {
	return fmt.Sprintf("%s/%s at op %d: %s", v.Prop, v.Class, v.OpIdx, v.Msg)
}

// Outcome of one executed case.
type Outcome struct {
	Case        *Case          `json:"-"`
	ReplayCase  *Case          `json:"-"` // when set, the case to store in the replay file instead of Case
	Violation   *Violation     `json:"violation,omitempty"`
	Steps       int64          `json:"steps"`
	Switches    int64          `json:"switches"`
	SimNanos    int64          `json:"simNanos"`
	TraceHash   uint64         `json:"traceHash"`
	InterHash   uint64         `json:"interHash"`
	Tasks       int            `json:"tasks"`
	Stranded    int            `json:"stranded"`
	StepLimit   bool           `json:"stepLimit,omitempty"`
	Decisions   []uint32       `json:"-"`
	Faults      map[string]int `json:"faults,omitempty"` // fired fault kinds
	Probes      map[string]int `json:"probes,omitempty"` // reach probes
	Shapes      []string       `json:"shapes,omitempty"`
	NonTrivial  bool           `json:"nonTrivial"`
	FileOps     int            `json:"fileOps,omitempty"`
	Images      int            `json:"images,omitempty"`
	Checks      int            `json:"checks,omitempty"`
	CaseHash    uint64         `json:"caseHash"`
	PolicyKind  string         `json:"policyKind,omitempty"`
	CrashPoints int            `json:"crashPoints,omitempty"`
	FaultPoints int            `json:"faultPoints,omitempty"`
	RaceReports int            `json:"raceReports,omitempty"`
	OnErrors    int            `json:"onErrors,omitempty"`
	LastErrors  []string       `json:"lastErrors,omitempty"`
}

func hashBytes(b []byte) uint64 {
	var h uint64 = 14695981039346656037
	for _, c := range b {
		h ^= uint64(c)
		h *= 1099511628211
	}
	return h
}

func jsonStr(v interface{}) string {
	b, _ := json.Marshal(v)
	return string(b)
}

func quoteKey(k []byte) string { return fmt.Sprintf("%q", string(k)) }

func joinNames(a []string) string { return strings.Join(a, ",") }
