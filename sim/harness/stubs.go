package harness

import "verifsim/simrt"


func (e *Exec) catchUp()                      {}
func (e *Exec) readOnlyOps(op Op)             {}
func (e *Exec) checkDurableNow(j int)         {}

func genCrash(c *Case, r *simrt.Rand, tier string)    { genSingle(c, r, propCfg("C04")) }
func genFault(c *Case, r *simrt.Rand, tier string)    { genSingle(c, r, propCfg("C04")) }
func genReadOnly(c *Case, r *simrt.Rand, tier string) { genSingle(c, r, propCfg("C04")) }
