package harness

import "verifsim/simrt"

type handle struct{}
type multiState struct{}

func (e *Exec) snapOpen(op Op)                {}
func (e *Exec) snapVerify(i int)              {}
func (e *Exec) snapClose(i int)               {}
func (e *Exec) iterProg(op Op)                {}
func (e *Exec) doPrevious(op Op)              {}
func (e *Exec) doRevert(op Op)                {}
func (e *Exec) catchUp()                      {}
func (e *Exec) readOnlyOps(op Op)             {}
func (e *Exec) postCloseCalls()               {}
func (e *Exec) runMulti()                     {}
func (e *Exec) checkGauges()                  {}
func (e *Exec) checkCompactionShape()         {}
func (e *Exec) recordRound()                  {}
func (e *Exec) checkDurableNow(j int)         {}
func (e *Exec) closeAllHandlesIf(all bool)    {}
func (e *Exec) closeHandlesRandomOrder()      {}
func (e *Exec) checkLeaks()                   {}

func genMulti(c *Case, r *simrt.Rand, tier string)    { genSingle(c, r, propCfg("C01")) }
func genCrash(c *Case, r *simrt.Rand, tier string)    { genSingle(c, r, propCfg("C04")) }
func genFault(c *Case, r *simrt.Rand, tier string)    { genSingle(c, r, propCfg("C04")) }
func genReadOnly(c *Case, r *simrt.Rand, tier string) { genSingle(c, r, propCfg("C04")) }
