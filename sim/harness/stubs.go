package harness

import "verifsim/simrt"

type multiState struct{}

func (e *Exec) catchUp()                      {}
func (e *Exec) readOnlyOps(op Op)             {}
func (e *Exec) postCloseCalls()               {}
func (e *Exec) runMulti()                     {}
func (e *Exec) checkDurableNow(j int)         {}

func genMulti(c *Case, r *simrt.Rand, tier string)    { genSingle(c, r, propCfg("C01")) }
func genCrash(c *Case, r *simrt.Rand, tier string)    { genSingle(c, r, propCfg("C04")) }
func genFault(c *Case, r *simrt.Rand, tier string)    { genSingle(c, r, propCfg("C04")) }
func genReadOnly(c *Case, r *simrt.Rand, tier string) { genSingle(c, r, propCfg("C04")) }
