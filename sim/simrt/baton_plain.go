//go:build !race

package simrt

type baton struct{ ch chan struct{} }

func newBaton() baton   { return baton{ch: make(chan struct{}, 2)} }
func (b baton) signal() { b.ch <- struct{}{} }
func (b baton) wait()   { <-b.ch }
func (b baton) close()  {}
