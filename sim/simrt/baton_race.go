//go:build race

package simrt

import (
	"syscall"
	"unsafe"
)

// Under -race the baton travels over raw pipes: syscall.Syscall carries no race
// annotation, so handing over creates no happens-before edge in the detector.
type baton struct{ r, w int }

//go:norace
func newBaton() baton {
	var p [2]int
	if err := syscall.Pipe(p[:]); err != nil {
		panic("simrt: pipe: " + err.Error())
	}
	return baton{r: p[0], w: p[1]}
}

var batonByte = [1]byte{1}

//go:norace
func (b baton) signal() {
	for {
		_, _, e := syscall.Syscall(syscall.SYS_WRITE, uintptr(b.w), uintptr(unsafe.Pointer(&batonByte[0])), 1)
		if e == syscall.EINTR {
			continue
		}
		if e != 0 {
			panic("simrt: baton write: " + e.Error())
		}
		return
	}
}

//go:norace
func (b baton) wait() {
	var buf [1]byte
	for {
		n, _, e := syscall.Syscall(syscall.SYS_READ, uintptr(b.r), uintptr(unsafe.Pointer(&buf[0])), 1)
		if e == syscall.EINTR {
			continue
		}
		if e != 0 {
			panic("simrt: baton read: " + e.Error())
		}
		if n == 1 {
			return
		}
	}
}

//go:norace
func (b baton) close() {
	syscall.Close(b.r)
	syscall.Close(b.w)
}
