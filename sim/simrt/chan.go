package simrt

import (
	"reflect"
	"time"
)

//go:norace
func chanLenCap(ref interface{}) (int, int) {
	v := reflect.ValueOf(ref)
	return v.Len(), v.Cap()
}

//go:norace
func chanPtr(ch interface{}) uintptr {
	if ch == nil {
		return 0
	}
	v := reflect.ValueOf(ch)
	if v.Kind() != reflect.Chan {
		panic("simrt: not a channel")
	}
	if v.IsNil() {
		return 0
	}
	return v.Pointer()
}

// Case describes one channel operation of a select.
type Case struct {
	Ch  interface{}
	Dir int
}

// ChanPre is called before a (rewritten) channel send/receive statement.  It
// returns once the real operation can complete without blocking for longer
// than its partner's next few instructions.  The returned token must be passed
// to ChanPost right after the operation.
//
//go:norace
func ChanPre(site int, ch interface{}, dir int) *Task {
	if !active {
		return nil
	}
	s := sched
	me := s.cur
	me.state = stChan
	me.hasDef = false
	me.cases = append(me.cases[:0], chanCase{ch: chanPtr(ch), ref: ch, dir: dir})
	s.yield(site)
	return me
}

// ChanPost completes a channel operation started with ChanPre or Select.
//
//go:norace
func ChanPost(t *Task) {
	if t == nil {
		return
	}
	if t.partner == nil {
		// scheduling point right after the operation completed: the task can
		// be pre-empted between, say, taking a ticket from a channel and
		// acting on it
		if active && sched.cur == t {
			sched.yield(-16)
		}
		return
	}
	if t.secondary {
		p := t.partner
		t.secondary = false
		t.partner = nil
		p.wake.signal() // tell the primary we are done
		t.wake.wait()   // parked as runnable until picked
		return
	}
	t.wake.wait() // wait for the secondary to finish its half
	t.partner = nil
	if active && sched.cur == t {
		sched.yield(-16)
	}
}

// Select decides which case of a rewritten select statement runs.  It returns
// the index of the chosen case (-1 for the default clause) and the token for
// ChanPost.
//
//go:norace
func Select(site int, hasDefault bool, cases ...Case) (int, *Task) {
	if !active {
		// outside a simulation: emulate with reflect.Select semantics is not
		// needed by the harness; fall back to a polling-free real select.
		return realSelect(hasDefault, cases), nil
	}
	s := sched
	me := s.cur
	me.state = stChan
	me.hasDef = hasDefault
	me.cases = me.cases[:0]
	for _, c := range cases {
		me.cases = append(me.cases, chanCase{ch: chanPtr(c.Ch), ref: c.Ch, dir: c.Dir})
	}
	s.yield(site)
	return me.granted, me
}

// realSelect picks a ready case using reflect.Select on *readiness only*: for
// receive cases we cannot peek without consuming, so outside a simulation the
// rewritten code must not be used with selects that carry values.  moss's
// selects outside a simulation only occur on closed-channel checks
// (isClosed / IsAborted / cancel checks), which this handles: a receive case is
// reported ready iff the channel is closed or has buffered elements.
func realSelect(hasDefault bool, cases []Case) int {
	for {
		for i, c := range cases {
			if c.Ch == nil {
				continue
			}
			v := reflect.ValueOf(c.Ch)
			if v.IsNil() {
				continue
			}
			if c.Dir == DirRecv {
				if v.Len() > 0 || chanIsClosed(c.Ch) {
					return i
				}
			} else if v.Len() < v.Cap() {
				return i
			}
		}
		if hasDefault {
			return -1
		}
		time.Sleep(50 * time.Microsecond)
	}
}

var realClosed = map[uintptr]struct{}{}
var realClosedMu = make(chan struct{}, 1)

func chanIsClosed(ch interface{}) bool {
	realClosedMu <- struct{}{}
	_, ok := realClosed[chanPtr(ch)]
	<-realClosedMu
	return ok
}

// ClosePre records that ch is about to be closed (the real close follows).
//
//go:norace
func ClosePre(site int, ch interface{}) {
	p := chanPtr(ch)
	if !active {
		realClosedMu <- struct{}{}
		realClosed[p] = struct{}{}
		<-realClosedMu
		return
	}
	s := sched
	if p != 0 && !s.isClosed(p) {
		s.closed = append(s.closed, p)
		s.keep = append(s.keep, ch)
	}
}

// ClosePost is the scheduling point after a close.
//
//go:norace
func ClosePost(site int) {
	if active {
		sched.yield(site)
	}
}
