package simrt

import "reflect"

// Close replaces the builtin close(ch): the close becomes visible to the model
// and is a scheduling point.
func Close(site int, ch interface{}) {
	ClosePre(site, ch)
	reflect.ValueOf(ch).Close()
	ClosePost(site)
}

// GoN replace `go f(a...)`: arguments are evaluated at the go statement, as in Go.

func Go0(site int, f func())                         { Go(site, f) }
func Go1[A any](site int, f func(A), a A)            { Go(site, func() { f(a) }) }
func Go2[A, B any](site int, f func(A, B), a A, b B) { Go(site, func() { f(a, b) }) }
func Go3[A, B, C any](site int, f func(A, B, C), a A, b B, c C) {
	Go(site, func() { f(a, b, c) })
}
func Go0R[R any](site int, f func() R)                     { Go(site, func() { f() }) }
func Go1R[A, R any](site int, f func(A) R, a A)            { Go(site, func() { f(a) }) }
func Go2R[A, B, R any](site int, f func(A, B) R, a A, b B) { Go(site, func() { f(a, b) }) }
func Go3R[A, B, C, R any](site int, f func(A, B, C) R, a A, b B, c C) {
	Go(site, func() { f(a, b, c) })
}
