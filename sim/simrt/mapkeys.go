package simrt

import (
	"cmp"
	"sort"
)

// MapKeys returns the keys of m sorted and then permuted by the run's PRNG, so
// that map iteration order is a recorded decision instead of a runtime accident.
func MapKeys[K cmp.Ordered, V any](site int, m map[K]V) []K {
	keys := make([]K, 0, len(m))
	for k := range m {
		keys = append(keys, k)
	}
	sort.Slice(keys, func(i, j int) bool { return keys[i] < keys[j] })
	if len(keys) > 1 && Active() {
		for i := len(keys) - 1; i > 0; i-- {
			j := Choose(i+1, "maporder")
			keys[i], keys[j] = keys[j], keys[i]
		}
	}
	return keys
}
