package simrt

import (
	"os"
)

// OSHooks lets the harness record and fail directory-level operations that
// moss performs directly on the os package.
type OSHooks struct {
	Remove  func(name string) error
	ReadDir func(name string) ([]os.FileInfo, error)
	Open    func(name string) (*os.File, error)
}

var Hooks OSHooks

func OsRemove(site int, name string) error {
	Yield(site)
	if Hooks.Remove != nil {
		return Hooks.Remove(name)
	}
	return os.Remove(name)
}

func OsOpen(site int, name string) (*os.File, error) {
	Yield(site)
	if Hooks.Open != nil {
		return Hooks.Open(name)
	}
	return os.Open(name)
}

func ReadDir(site int, name string) ([]os.FileInfo, error) {
	Yield(site)
	if Hooks.ReadDir != nil {
		return Hooks.ReadDir(name)
	}
	return readDirCompat(name)
}

func readDirCompat(name string) ([]os.FileInfo, error) {
	ents, err := os.ReadDir(name)
	if err != nil {
		return nil, err
	}
	out := make([]os.FileInfo, 0, len(ents))
	for _, e := range ents {
		fi, err := e.Info()
		if err != nil {
			return nil, err
		}
		out = append(out, fi)
	}
	return out, nil
}
