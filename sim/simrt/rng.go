package simrt

// rng is xoshiro256** seeded through splitmix64.
type rng struct{ s [4]uint64 }

//go:norace
func (r *rng) seed(x uint64) {
	for i := range r.s {
		x += 0x9e3779b97f4a7c15
		z := x
		z = (z ^ (z >> 30)) * 0xbf58476d1ce4e5b9
		z = (z ^ (z >> 27)) * 0x94d049bb133111eb
		r.s[i] = z ^ (z >> 31)
	}
}

//go:norace
func rotl(x uint64, k uint) uint64 { return (x << k) | (x >> (64 - k)) }

//go:norace
func (r *rng) next() uint64 {
	s := &r.s
	res := rotl(s[1]*5, 7) * 9
	t := s[1] << 17
	s[2] ^= s[0]
	s[3] ^= s[1]
	s[1] ^= s[2]
	s[0] ^= s[3]
	s[2] ^= t
	s[3] = rotl(s[3], 45)
	return res
}

// Rand is an exported generator with the same algorithm, for the harness's
// generation phase.
type Rand struct{ r rng }

func NewRand(seed uint64) *Rand { x := &Rand{}; x.r.seed(seed); return x }
func (x *Rand) Uint64() uint64  { return x.r.next() }
func (x *Rand) Intn(n int) int {
	if n <= 1 {
		return 0
	}
	return int(x.r.next() % uint64(n))
}
func (x *Rand) Chance(p float64) bool { return float64(x.r.next()>>11)/float64(1<<53) < p }

// Mix derives a sub-seed.
func Mix(a, b uint64) uint64 {
	x := a ^ (b+0x9e3779b97f4a7c15)*0xbf58476d1ce4e5b9
	x ^= x >> 29
	x *= 0x94d049bb133111eb
	x ^= x >> 32
	return x
}
