// Package simrt is the deterministic scheduler the rewritten moss sources and
// the harness run under.  Exactly one task (goroutine) runs between two
// scheduling points; who runs next, when the simulated clock advances, which
// select case fires, which waiter gets a mutex and in which order a map is
// ranged over are all decisions of one seeded PRNG (or of a recorded decision
// log when replaying).
//
// Every function in this package that touches scheduler state is marked
// go:norace: under -race the baton is handed over raw pipes (baton_race.go), so
// the race detector sees none of the scheduler's own ordering and judges moss
// purely by moss's own synchronisation.
package simrt

import (
	"fmt"
	"os"
	"runtime"
	"runtime/debug"
	"sort"
	"strings"
	"sync/atomic"
	"syscall"
	"time"
)

// Task states.
const (
	stRunnable = iota
	stMutex
	stCond
	stChan
	stSleep
	stWG
	stDone
)

var stateNames = [...]string{"runnable", "mutex", "cond", "chan", "sleep", "waitgroup", "done"}

// Channel op directions.
const (
	DirRecv = 0
	DirSend = 1
)

type chanCase struct {
	ch  uintptr
	ref interface{} // keeps the channel alive and lets us ask len/cap
	dir int
}

// Task is one goroutine under the scheduler.
type Task struct {
	ID     int
	Name   string // hierarchical: parent.childSeq
	Kind   string // "driver:..." or the go-statement site
	Driver bool
	site   int
	nchild int

	wake baton

	state     int
	mu        *Mutex
	rlock     bool
	cond      *Cond
	cases     []chanCase
	hasDef    bool
	granted   int
	partner   *Task
	secondary bool
	wakeAt    int64
	wg        *WaitGroup

	quiescing    bool
	quiesceLimit int64
	stallUntil   int64 // > 0: a slow callback; not runnable before that many scheduling points have passed (see Stall)
	prio         int64
	lastSite     int
	steps        int64
}

// Policy selects how the next task is drawn.
type Policy struct {
	Kind     string  // "uniform", "pct", "weighted"
	Sticky   float64 // probability of continuing the running task without a draw
	DriverW  int     // weight of driver tasks (weighted)
	BgW      int     // weight of background tasks (weighted)
	PAdvance float64 // probability of jumping the clock to the next timer although tasks are eligible
	PctD     int     // number of priority change points (pct)
	Horizon  int64   // step horizon within which pct change points are placed
	// AtomicYield n > 0: about every n-th atomic operation of the code under
	// test is a scheduling point before, and another one after, the operation
	AtomicYield int
}

// Config for one run.
type Config struct {
	Seed     uint64
	Policy   Policy
	MaxSteps int64
	Replay   []uint32 // decision log to follow; PRNG when exhausted
	// QuietTail: once the log is exhausted every decision is 0 (first eligible
	// task, no clock advance, first grantable case ...) instead of a PRNG draw;
	// the minimiser uses it to cut a failing schedule down to the prefix that matters
	QuietTail bool
	LogPath  string   // optional full text event log
}

// Violation raised by the runtime itself (panic, deadlock).
type Violation struct {
	Class string
	Msg   string
	Stack string
}

// Result of a run.
type Result struct {
	Steps      int64
	Switches   int64
	SimNanos   int64
	Decisions  []uint32
	TraceHash  uint64
	Tasks      int
	Stranded   int
	StepLimit  bool
	Violation  *Violation
	InterHash  uint64 // hash of the (task kind, site) sequence at switches
	ClockJumps int64
}

type timerEnt struct {
	at int64
	ch chan time.Time
}

// Sched is the scheduler state; only the baton holder touches it.
type Sched struct {
	cfg        Config
	rng        rng
	arng       uint64 // sampling of scheduling points at atomic operations
	tasks      []*Task
	cur        *Task
	now        int64
	steps      int64
	switches   int64
	log        []uint32
	rpos       int
	closed     []uintptr
	timers     []timerEnt
	hash       uint64
	ihash      uint64
	over       bool
	viol       *Violation
	stepLimit  bool
	ctl        baton
	fair       bool
	fairPos    int
	noPreempt  int
	pctPts     []int64
	lowPrio    int64
	logf       *os.File
	clockJumps int64
	quiescing  *Task // non-nil while at least one task is inside Quiesce
	nQuiescing int
	idleJumps  int
	keep       []interface{}
}

var (
	active    bool
	sched     *Sched
	progress  int64 // for the wall-clock watchdog
	siteNames []string
)

// RegisterSites is called from the rewritten package's init with the site table.
func RegisterSites(names []string) { siteNames = names }

// SiteName returns the source position text for a site id.
func SiteName(site int) string {
	if site >= 0 && site < len(siteNames) {
		return siteNames[site]
	}
	return fmt.Sprintf("site#%d", site)
}

// Active reports whether a simulation is running.
//
//go:norace
func Active() bool { return active }

//go:norace
func (s *Sched) mix(a, b, c uint64) {
	h := s.hash
	for _, v := range [3]uint64{a, b, c} {
		h ^= v
		h *= 1099511628211
	}
	s.hash = h
}

// Note folds a harness observation into the trace hash (and the text log).
//
//go:norace
func Note(kind string, v uint64) {
	if !active {
		return
	}
	s := sched
	var k uint64 = 14695981039346656037
	for i := 0; i < len(kind); i++ {
		k ^= uint64(kind[i])
		k *= 1099511628211
	}
	s.mix(k, v, uint64(s.steps))
	if s.logf != nil {
		fmt.Fprintf(s.logf, "note %s %d step=%d\n", kind, v, s.steps)
	}
}

//go:norace
func (s *Sched) choose(n int, tag string) int {
	if n <= 1 {
		return 0
	}
	var v int
	if s.rpos < len(s.cfg.Replay) {
		v = int(s.cfg.Replay[s.rpos]) % n
		s.rpos++
		s.rng.next() // keep the PRNG in step so a shortened log degrades gracefully
	} else if s.cfg.QuietTail {
		v = 0
	} else {
		v = int(s.rng.next() % uint64(n))
	}
	s.log = append(s.log, uint32(v))
	if s.logf != nil {
		fmt.Fprintf(s.logf, "choose %s n=%d -> %d\n", tag, n, v)
	}
	return v
}

//go:norace
func (s *Sched) chance(p float64, tag string) bool {
	if p <= 0 {
		return false
	}
	if p >= 1 {
		return true
	}
	return s.choose(1000, tag) < int(p*1000)
}

// Choose draws a decision from the run's single PRNG (harness use).
//
//go:norace
func Choose(n int, tag string) int {
	if !active {
		return 0
	}
	return sched.choose(n, tag)
}

// Chance draws a yes/no decision with probability p.
//
//go:norace
func Chance(p float64, tag string) bool {
	if !active {
		return false
	}
	return sched.chance(p, tag)
}

//go:norace
func (s *Sched) newTask(parent *Task, site int, kind string, driver bool) *Task {
	t := &Task{ID: len(s.tasks), site: site, Kind: kind, Driver: driver, granted: -1}
	if parent == nil {
		t.Name = "0"
	} else {
		parent.nchild++
		t.Name = fmt.Sprintf("%s.%d", parent.Name, parent.nchild)
	}
	t.wake = newBaton()
	t.prio = int64(s.rng.next()>>16) + 1000
	s.tasks = append(s.tasks, t)
	return t
}

//go:norace
func (s *Sched) isClosed(ch uintptr) bool {
	for _, c := range s.closed {
		if c == ch {
			return true
		}
	}
	return false
}

// waiterFor reports whether some task other than t waits on ch in direction dir.
//
//go:norace
func (s *Sched) waitersFor(t *Task, ch uintptr, dir int, out []*Task) []*Task {
	for _, o := range s.tasks {
		if o == t || o.state != stChan {
			continue
		}
		for _, c := range o.cases {
			if c.ch == ch && c.dir == dir {
				out = append(out, o)
				break
			}
		}
	}
	return out
}

//go:norace
func (s *Sched) caseReady(t *Task, c chanCase) bool {
	if c.ch == 0 {
		return false // nil channel blocks forever
	}
	if s.isClosed(c.ch) {
		return true
	}
	l, cp := chanLenCap(c.ref)
	if c.dir == DirRecv {
		if l > 0 {
			return true
		}
		if cp == 0 {
			return len(s.waitersFor(t, c.ch, DirSend, nil)) > 0
		}
		return false
	}
	if l < cp {
		return true
	}
	if cp == 0 {
		return len(s.waitersFor(t, c.ch, DirRecv, nil)) > 0
	}
	return false
}

//go:norace
func (s *Sched) eligible(t *Task) bool {
	switch t.state {
	case stRunnable:
		return t.stallUntil == 0 || s.steps >= t.stallUntil
	case stMutex:
		return t.mu.free(t.rlock)
	case stCond, stDone:
		return false
	case stChan:
		if t.hasDef {
			return true
		}
		for _, c := range t.cases {
			if s.caseReady(t, c) {
				return true
			}
		}
		return false
	case stSleep:
		return s.now >= t.wakeAt
	case stWG:
		return t.wg.n <= 0
	}
	return false
}

//go:norace
func (s *Sched) nextTimer() (int64, bool) {
	var best int64
	ok := false
	for _, t := range s.tasks {
		if t.state == stSleep && (!ok || t.wakeAt < best) {
			best, ok = t.wakeAt, true
		}
	}
	for _, tm := range s.timers {
		if !ok || tm.at < best {
			best, ok = tm.at, true
		}
	}
	return best, ok
}

//go:norace
func (s *Sched) advanceTo(at int64) {
	if at > s.now {
		s.now = at
	}
	s.clockJumps++
	// fire channel timers
	j := 0
	for _, tm := range s.timers {
		if tm.at <= s.now {
			select {
			case tm.ch <- time.Unix(0, s.now):
			default:
			}
		} else {
			s.timers[j] = tm
			j++
		}
	}
	s.timers = s.timers[:j]
	if s.logf != nil {
		fmt.Fprintf(s.logf, "clock -> %d\n", s.now)
	}
}

// pick decides the next task.  Returns nil when nothing can run.
//
//go:norace
func (s *Sched) pick() *Task {
	var el []*Task
	for {
		el = el[:0]
		for _, t := range s.tasks {
			if s.eligible(t) {
				el = append(el, t)
			}
		}
		at, haveTimer := s.nextTimer()
		{
			// A stalled task (slow application callback, see Stall) waits for
			// the others; once nobody but quiescing tasks can run its stall
			// ends early (earliest deadline first).
			canRun := false
			for _, t := range el {
				if !t.quiescing {
					canRun = true
					break
				}
			}
			if !canRun {
				var st *Task
				for _, t := range s.tasks {
					if t.state == stRunnable && t.stallUntil > s.steps && (st == nil || t.stallUntil < st.stallUntil) {
						st = t
					}
				}
				if st != nil {
					st.stallUntil = 0
					continue
				}
			}
		}
		if s.quiescing != nil {
			// Quiesce: tasks that are quiescing (several may be, e.g. a driver
			// and a harness callback inside the persister) must not be chosen
			// while any other task can run.
			j := 0
			for _, t := range el {
				// a quiescing task whose step budget is used up takes part
				// again, so that it can notice and return
				if !t.quiescing || s.steps >= t.quiesceLimit {
					el[j] = t
					j++
				}
			}
			if j == 0 {
				// only quiescing tasks are left: each of them will find that
				// nobody else can run and return from Quiesce
				for _, t := range el {
					if t == s.cur {
						return t
					}
				}
				return el[0]
			}
			el = el[:j]
		}
		if len(el) == 0 {
			if haveTimer && at > s.now {
				// Only sleepers are left.  A task that sleeps in a loop (the
				// idle merger waker) must not hide a deadlock of everybody
				// else: give up after many clock jumps in a row during which
				// no driver task could run.
				s.idleJumps++
				if s.idleJumps > 400 {
					return nil
				}
				s.advanceTo(at)
				continue
			}
			return nil
		}
		if haveTimer && at > s.now && s.cfg.Policy.PAdvance > 0 && s.quiescing == nil &&
			s.chance(s.cfg.Policy.PAdvance, "advance") {
			s.advanceTo(at)
			continue
		}
		break
	}
	if len(el) == 1 {
		return el[0]
	}
	if s.noPreempt > 0 && s.quiescing == nil && s.cur != nil && s.eligible(s.cur) {
		return s.cur
	}
	if s.fair {
		// round-robin over task ids
		best := el[0]
		bestD := -1
		for _, t := range el {
			d := (t.ID - s.fairPos + len(s.tasks)) % len(s.tasks)
			if bestD < 0 || d < bestD {
				best, bestD = t, d
			}
		}
		s.fairPos = (best.ID + 1) % len(s.tasks)
		return best
	}
	switch s.cfg.Policy.Kind {
	case "pct":
		for _, p := range s.pctPts {
			if p == s.steps && s.cur != nil {
				s.lowPrio--
				s.cur.prio = s.lowPrio
			}
		}
		best := el[0]
		for _, t := range el[1:] {
			if t.prio > best.prio {
				best = t
			}
		}
		return best
	case "weighted":
		tot := 0
		for _, t := range el {
			if t.Driver {
				tot += s.cfg.Policy.DriverW
			} else {
				tot += s.cfg.Policy.BgW
			}
		}
		if tot <= 0 {
			return el[s.choose(len(el), "task")]
		}
		r := s.choose(tot, "wtask")
		for _, t := range el {
			w := s.cfg.Policy.BgW
			if t.Driver {
				w = s.cfg.Policy.DriverW
			}
			if r < w {
				return t
			}
			r -= w
		}
		return el[len(el)-1]
	}
	return el[s.choose(len(el), "task")]
}

// grant performs the model-level acquisition for the chosen task.
//
//go:norace
func (s *Sched) grant(t *Task) {
	switch t.state {
	case stMutex:
		t.mu.acquire(t, t.rlock)
		t.mu = nil
	case stChan:
		var ready []int
		for i, c := range t.cases {
			if s.caseReady(t, c) {
				ready = append(ready, i)
			}
		}
		if len(ready) == 0 {
			t.granted = -1 // default clause
		} else {
			i := ready[s.choose(len(ready), "case")]
			t.granted = i
			c := t.cases[i]
			if !s.isClosed(c.ch) {
				l, cp := chanLenCap(c.ref)
				needPartner := cp == 0 || (c.dir == DirRecv && l == 0) || (c.dir == DirSend && l >= cp)
				if cp > 0 {
					needPartner = false // buffered ops complete on their own when granted
				}
				if needPartner {
					ws := s.waitersFor(t, c.ch, 1-c.dir, nil)
					p := ws[s.choose(len(ws), "partner")]
					// choose the partner's case
					var pc []int
					for j, oc := range p.cases {
						if oc.ch == c.ch && oc.dir == 1-c.dir {
							pc = append(pc, j)
						}
					}
					p.granted = pc[s.choose(len(pc), "pcase")]
					p.secondary = true
					p.partner = t
					p.state = stRunnable
					p.cases = nil
					t.partner = p
				}
			}
		}
		t.cases = nil
	case stWG:
		t.wg = nil
	}
	t.state = stRunnable
}

// yield is the scheduling point: the caller has set its own state.
//
//go:norace
func (s *Sched) yield(site int) {
	me := s.cur
	me.lastSite = site
	s.steps++
	me.steps++
	atomic.AddInt64(&progress, 1)
	if s.over {
		parkForever()
	}
	if s.steps > s.cfg.MaxSteps {
		s.stepLimit = true
		s.finish()
		parkForever()
	}
	if me.state == stRunnable && me.stallUntil == 0 && s.quiescing == nil && !s.fair && s.noPreempt == 0 &&
		s.cfg.Policy.Sticky > 0 && s.chance(s.cfg.Policy.Sticky, "sticky") {
		return
	}
	next := s.pick()
	if next == nil {
		s.deadlock()
		parkForever()
	}
	if next.Driver {
		s.idleJumps = 0
	}
	s.grant(next)
	s.mix(uint64(next.ID), uint64(uint32(site)), uint64(next.state))
	if s.logf != nil {
		fmt.Fprintf(s.logf, "step %d t%d(%s) at %s -> t%d(%s)\n", s.steps, me.ID, me.Kind, SiteName(site), next.ID, next.Kind)
	}
	if next == me {
		if me.partner != nil && !me.secondary {
			me.partner.wake.signal() // release the rendezvous partner
		}
		return
	}
	s.switchTo(me, next)
}

//go:norace
func (s *Sched) switchTo(me, next *Task) {
	s.switches++
	h := s.ihash
	h ^= uint64(next.site+7) * 0x9e3779b97f4a7c15
	h *= 1099511628211
	s.ihash = h
	s.cur = next
	if next.partner != nil && !next.secondary {
		next.partner.wake.signal()
	}
	next.wake.signal()
	if me != nil {
		me.wake.wait()
	}
}

//go:norace
func (s *Sched) finish() {
	if s.over {
		return
	}
	s.over = true
	s.ctl.signal()
}

//go:norace
func (s *Sched) deadlock() {
	var b strings.Builder
	for _, t := range s.tasks {
		if t.state == stDone {
			continue
		}
		fmt.Fprintf(&b, "t%d %s [%s] %s at %s", t.ID, t.Name, t.Kind, stateNames[t.state], SiteName(t.lastSite))
		if t.state == stMutex && t.mu != nil && t.mu.owner != nil {
			fmt.Fprintf(&b, " (held by t%d)", t.mu.owner.ID)
		}
		b.WriteString("\n")
	}
	s.viol = &Violation{Class: "deadlock", Msg: "no task can run while a driver call is pending", Stack: b.String()}
	s.finish()
}

func parkForever() {
	select {}
}

// taskMain is the body of every task goroutine.
//
//go:norace
func (s *Sched) taskMain(t *Task, fn func()) {
	debug.SetPanicOnFault(true)
	t.wake.wait()
	defer func() {
		if r := recover(); r != nil {
			if !s.over {
				cls := "panic"
				msg := fmt.Sprint(r)
				if e, ok := r.(runtime.Error); ok {
					msg = e.Error()
					if strings.Contains(msg, "unexpected fault address") {
						cls = "fault"
					}
				}
				s.viol = &Violation{Class: cls, Msg: fmt.Sprintf("task %s [%s]: %s", t.Name, t.Kind, msg), Stack: string(debug.Stack())}
				s.finish()
			}
			return
		}
		if s.over {
			return
		}
		t.state = stDone
		t.wake.close()
		if t.ID == 0 {
			s.finish()
			return
		}
		next := s.pick()
		if next == nil {
			s.deadlock()
			return
		}
		s.grant(next)
		s.mix(uint64(next.ID), 0xdead, uint64(t.ID))
		s.switchTo(nil, next)
	}()
	fn()
}

// Go starts fn as a new task (rewritten `go` statements and harness drivers).
//
//go:norace
func Go(site int, fn func()) {
	if !active {
		go fn()
		return
	}
	s := sched
	t := s.newTask(s.cur, site, SiteName(site), false)
	go s.taskMain(t, fn)
	s.yield(site)
}

// GoDriver starts a harness driver task.
//
//go:norace
func GoDriver(name string, fn func()) {
	s := sched
	t := s.newTask(s.cur, -2, "driver:"+name, true)
	go s.taskMain(t, fn)
	s.yield(-2)
}

// Yield is a plain pre-emption point.
//
//go:norace
func Yield(site int) {
	if !active {
		return
	}
	sched.yield(site)
}

// AtomTok orders the evaluation of AtomicPre before the atomic operation.
type AtomTok struct{}

// AtomicPre is a (sampled) scheduling point before an atomic operation.
//
//go:norace
func AtomicPre(site int) AtomTok {
	if active {
		sched.atomicYield(site)
	}
	return AtomTok{}
}

// A passes the result of an atomic operation through, after a (sampled)
// scheduling point behind it.
//
//go:norace
func A[T any](_ AtomTok, v T) T {
	if active {
		sched.atomicYield(siteAtomicPost)
	}
	return v
}

// AtomicPost is the scheduling point behind an atomic store.
//
//go:norace
func AtomicPost() {
	if active {
		sched.atomicYield(siteAtomicPost)
	}
}

const siteAtomicPost = -41

//go:norace
func (s *Sched) atomicYield(site int) {
	n := s.cfg.Policy.AtomicYield
	if n <= 0 {
		return
	}
	// own xorshift stream: these draws are far too many for the decision log
	// and are a pure function of the seed and the execution so far
	x := s.arng
	x ^= x << 13
	x ^= x >> 7
	x ^= x << 17
	s.arng = x
	if x%uint64(n) != 0 {
		return
	}
	s.yield(site)
}

// Cur returns the running task (nil outside a simulation).
//
//go:norace
func Cur() *Task {
	if !active {
		return nil
	}
	return sched.cur
}

// Steps returns the global scheduling-point counter (event sequence number).
//
//go:norace
func Steps() int64 {
	if !active {
		return 0
	}
	return sched.steps
}

// NoPreempt(true) lets the caller keep the baton while it can run; nests.
//
//go:norace
func NoPreempt(on bool) {
	if !active {
		return
	}
	if on {
		sched.noPreempt++
	} else if sched.noPreempt > 0 {
		sched.noPreempt--
	}
}

// Fair switches round-robin scheduling on or off (liveness suffix).
//
//go:norace
func Fair(on bool) {
	if active {
		sched.fair = on
	}
}

// Quiesce lets every other task run until none of them is eligible (timers are
// not advanced unless idle is true, in which case the clock jumps at most
// maxJumps times) or until maxSteps scheduling points have passed.  Returns
// true when quiescence was reached.
//
//go:norace
func Quiesce(maxSteps int64, maxJumps int) bool {
	if !active {
		// real-goroutine mode (differential validation against unrewritten
		// moss): give the background goroutines real time
		d := time.Duration(maxSteps) * 20 * time.Microsecond
		if d > 150*time.Millisecond {
			d = 150 * time.Millisecond
		}
		time.Sleep(d)
		return true
	}
	s := sched
	me := s.cur
	limit := s.steps + maxSteps
	jumps := 0
	for {
		// is anybody else (who is not quiescing, too) eligible?
		other := false
		for _, t := range s.tasks {
			if t != me && !t.quiescing && (s.eligible(t) || (t.state == stRunnable && t.stallUntil > 0)) {
				other = true
				break
			}
		}
		if !other {
			at, ok := s.nextTimer()
			if ok && at > s.now && jumps < maxJumps {
				jumps++
				s.advanceTo(at)
				continue
			}
			return true
		}
		if s.steps >= limit {
			return false
		}
		me.quiescing = true
		me.quiesceLimit = limit
		s.nQuiescing++
		s.quiescing = me
		s.yield(-3)
		me.quiescing = false
		s.nQuiescing--
		if s.nQuiescing == 0 {
			s.quiescing = nil
		}
	}
}

// Stall keeps the calling task busy doing nothing while the other tasks take n
// scheduling points (a slow application callback, a stalled lower level).
// Unlike Quiesce it does not make the task look idle to anybody: a Quiesce of
// another task does not report "idle" while a task is stalled.  When nobody
// else can run the stall ends early.
//
//go:norace
func Stall(n int64) {
	if !active || n <= 0 {
		return
	}
	s := sched
	me := s.cur
	me.stallUntil = s.steps + n
	s.yield(-4)
	me.stallUntil = 0
}

// OthersEligible reports whether any task other than the caller could run now.
//
//go:norace
func OthersEligible() bool {
	if !active {
		return false
	}
	s := sched
	for _, t := range s.tasks {
		if t != s.cur && s.eligible(t) {
			return true
		}
	}
	return false
}

// OthersEligibleOrTimers is OthersEligible or a pending timer / sleeper.
//
//go:norace
func OthersEligibleOrTimers() bool {
	if !active {
		return false
	}
	if OthersEligible() {
		return true
	}
	_, ok := sched.nextTimer()
	return ok
}

// Run executes root as task 0 under a fresh scheduler and blocks until the run
// is over.
//
//go:norace
func Run(cfg Config, root func()) *Result {
	if cfg.MaxSteps <= 0 {
		cfg.MaxSteps = 200000
	}
	s := &Sched{cfg: cfg, hash: 14695981039346656037, ihash: 14695981039346656037, arng: cfg.Seed | 1}
	s.rng.seed(cfg.Seed)
	s.ctl = newBaton()
	s.now = 1_700_000_000_000_000_000
	if cfg.Policy.Kind == "pct" {
		h := cfg.Policy.Horizon
		if h <= 0 {
			h = 2000
		}
		for i := 0; i < cfg.Policy.PctD; i++ {
			s.pctPts = append(s.pctPts, int64(s.rng.next()%uint64(h))+1)
		}
	}
	if cfg.LogPath != "" {
		s.logf, _ = os.Create(cfg.LogPath)
	}
	sched = s
	active = true
	t := s.newTask(nil, -1, "driver:root", true)
	go s.taskMain(t, root)
	s.cur = t
	t.wake.signal()
	s.ctl.wait()
	active = false
	stranded := 0
	for _, t := range s.tasks {
		if t.state != stDone {
			stranded++
		}
	}
	if stranded > 0 {
		stranded-- // the task that ended the run
	}
	if s.logf != nil {
		s.logf.Close()
	}
	r := &Result{Steps: s.steps, Switches: s.switches, SimNanos: s.now - 1_700_000_000_000_000_000,
		Decisions: s.log, TraceHash: s.hash, Tasks: len(s.tasks), Stranded: stranded,
		StepLimit: s.stepLimit, Violation: s.viol, InterHash: s.ihash, ClockJumps: s.clockJumps}
	sched = nil
	return r
}

// StartWatchdog exits the process with status 2 when no scheduling point is
// passed for d while a simulation is active.  A task that is visibly computing
// between two scheduling points (the process keeps using CPU: a 256 MiB copy on
// a loaded machine) gets four times as long.
func StartWatchdog(d time.Duration) {
	cpu := func() time.Duration {
		var ru syscall.Rusage
		if syscall.Getrusage(syscall.RUSAGE_SELF, &ru) != nil {
			return 0
		}
		return time.Duration(ru.Utime.Nano() + ru.Stime.Nano())
	}
	go func() {
		last := atomic.LoadInt64(&progress)
		idle := time.Duration(0)
		cpu0 := cpu()
		for {
			time.Sleep(500 * time.Millisecond)
			cur := atomic.LoadInt64(&progress)
			if cur != last || !watchdogArmed() {
				last, idle, cpu0 = cur, 0, cpu()
				continue
			}
			idle += 500 * time.Millisecond
			limit := d
			if cpu()-cpu0 >= idle/5 {
				limit = 4 * d
			}
			if idle >= limit {
				buf := make([]byte, 1<<20)
				n := runtime.Stack(buf, true)
				fmt.Fprintf(os.Stderr, "simrt watchdog: no progress for %v\n%s\n", idle, buf[:n])
				os.Exit(2)
			}
		}
	}()
}

//go:norace
func watchdogArmed() bool { return active }

// DumpTasks describes all tasks (debugging).
//
//go:norace
func DumpTasks() string {
	if !active {
		return ""
	}
	var lines []string
	for _, t := range sched.tasks {
		l := fmt.Sprintf("t%d %s [%s] %s at %s", t.ID, t.Name, t.Kind, stateNames[t.state], SiteName(t.lastSite))
		if t.state == stMutex && t.mu != nil {
			if t.mu.owner != nil {
				l += fmt.Sprintf(" (mutex held by t%d %s)", t.mu.owner.ID, stateNames[t.mu.owner.state])
			} else {
				l += fmt.Sprintf(" (mutex free, readers=%d)", t.mu.readers)
			}
		}
		lines = append(lines, l)
	}
	sort.Strings(lines)
	return strings.Join(lines, "\n")
}
