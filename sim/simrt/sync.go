package simrt

import (
	"sync"
)

// Locker mirrors sync.Locker.
type Locker interface {
	Lock()
	Unlock()
}

// Mutex replaces sync.Mutex in the rewritten sources.  Ownership is modelled by
// the scheduler; the embedded real mutex is locked only after the model granted
// it (so it is never contended) and exists so that the race detector sees the
// program's own acquire/release edges.
type Mutex struct {
	real    sync.Mutex
	owner   *Task
	readers int
	site    int
}

//go:norace
func (m *Mutex) free(rlock bool) bool {
	if rlock {
		return m.owner == nil
	}
	return m.owner == nil && m.readers == 0
}

//go:norace
func (m *Mutex) acquire(t *Task, rlock bool) {
	if rlock {
		m.readers++
	} else {
		m.owner = t
	}
}

//go:norace
func (m *Mutex) modelLock(rlock bool) {
	s := sched
	me := s.cur
	me.state = stMutex
	me.mu = m
	me.rlock = rlock
	s.yield(-10)
}

// Lock acquires the mutex.
func (m *Mutex) Lock() {
	if !Active() {
		m.real.Lock()
		return
	}
	m.modelLock(false)
	m.real.Lock()
}

//go:norace
func (m *Mutex) modelUnlock(yield bool) {
	s := sched
	if m.owner == nil {
		panic("sync: unlock of unlocked mutex")
	}
	m.owner = nil
	if yield {
		s.yield(-11)
	}
}

// Unlock releases the mutex.
func (m *Mutex) Unlock() {
	if !Active() {
		m.real.Unlock()
		return
	}
	m.real.Unlock()
	m.modelUnlock(true)
}

// TryLock tries to acquire the mutex without blocking.
//
//go:norace
func (m *Mutex) TryLock() bool {
	if !Active() {
		return m.real.TryLock()
	}
	if m.free(false) {
		m.owner = sched.cur
		m.real.Lock()
		return true
	}
	return false
}

// RWMutex replaces sync.RWMutex.
type RWMutex struct {
	mu   Mutex
	real sync.RWMutex
}

func (m *RWMutex) Lock() {
	if !Active() {
		m.real.Lock()
		return
	}
	m.mu.modelLock(false)
	m.real.Lock()
}

func (m *RWMutex) Unlock() {
	if !Active() {
		m.real.Unlock()
		return
	}
	m.real.Unlock()
	m.mu.modelUnlock(true)
}

func (m *RWMutex) RLock() {
	if !Active() {
		m.real.RLock()
		return
	}
	m.mu.modelLock(true)
	m.real.RLock()
}

//go:norace
func (m *RWMutex) modelRUnlock() {
	if m.mu.readers <= 0 {
		panic("sync: RUnlock of unlocked RWMutex")
	}
	m.mu.readers--
	sched.yield(-11)
}

func (m *RWMutex) RUnlock() {
	if !Active() {
		m.real.RUnlock()
		return
	}
	m.real.RUnlock()
	m.modelRUnlock()
}

// RLocker returns a Locker for the read side.
func (m *RWMutex) RLocker() Locker { return (*rlocker)(m) }

type rlocker RWMutex

func (r *rlocker) Lock()   { (*RWMutex)(r).RLock() }
func (r *rlocker) Unlock() { (*RWMutex)(r).RUnlock() }

// Cond replaces sync.Cond.
type Cond struct {
	L       Locker
	waiters []*Task
	real    *sync.Cond // used outside a simulation (translation smoke test)
}

// NewCond returns a new Cond with Locker l.
func NewCond(l Locker) *Cond {
	c := &Cond{L: l}
	if m, ok := l.(*Mutex); ok {
		c.real = sync.NewCond(&m.real)
	} else {
		c.real = sync.NewCond(l)
	}
	return c
}

//go:norace
func (c *Cond) enqueue() *Task {
	me := sched.cur
	c.waiters = append(c.waiters, me)
	return me
}

//go:norace
func (c *Cond) park(me *Task) {
	me.state = stCond
	me.cond = c
	sched.yield(-12)
}

// Wait atomically unlocks c.L and suspends the caller until signalled, then
// re-locks c.L.  As with sync.Cond there are no spurious wake-ups and the
// waiter is registered before the lock is released.
func (c *Cond) Wait() {
	if !Active() {
		c.real.Wait()
		return
	}
	me := c.enqueue()
	if m, ok := c.L.(*Mutex); ok {
		m.real.Unlock()
		m.modelUnlock(false)
	} else {
		c.L.Unlock()
	}
	c.park(me)
	c.L.Lock()
}

// Signal wakes one waiter (which one is a scheduler decision).
//
//go:norace
func (c *Cond) Signal() {
	if !Active() {
		c.real.Signal()
		return
	}
	if len(c.waiters) > 0 {
		i := sched.choose(len(c.waiters), "signal")
		t := c.waiters[i]
		c.waiters = append(c.waiters[:i], c.waiters[i+1:]...)
		t.state = stRunnable
		t.cond = nil
	}
	sched.yield(-13)
}

// Broadcast wakes all waiters.
//
//go:norace
func (c *Cond) Broadcast() {
	if !Active() {
		c.real.Broadcast()
		return
	}
	for _, t := range c.waiters {
		t.state = stRunnable
		t.cond = nil
	}
	c.waiters = nil
	sched.yield(-13)
}

// WaitGroup replaces sync.WaitGroup.
type WaitGroup struct {
	n    int
	real sync.WaitGroup
}

//go:norace
func (w *WaitGroup) modelAdd(d int) {
	w.n += d
	if w.n < 0 {
		panic("sync: negative WaitGroup counter")
	}
}

func (w *WaitGroup) Add(d int) {
	if !Active() {
		w.real.Add(d)
		return
	}
	w.modelAdd(d)
	w.real.Add(d)
	Yield(-14)
}

func (w *WaitGroup) Done() { w.Add(-1) }

//go:norace
func (w *WaitGroup) modelWait() {
	me := sched.cur
	me.state = stWG
	me.wg = w
	sched.yield(-15)
}

func (w *WaitGroup) Wait() {
	if !Active() {
		w.real.Wait()
		return
	}
	w.modelWait()
	w.real.Wait()
}
