package simrt

import "time"

// Now returns the simulated time; every call advances the clock by 1µs so that
// durations measured by moss are non-zero and strictly ordered.
//
//go:norace
func Now() time.Time {
	if !active {
		return time.Now()
	}
	sched.now += 1000
	return time.Unix(0, sched.now)
}

//go:norace
func Since(t time.Time) time.Duration { return Now().Sub(t) }

// Sleep suspends the task until the simulated clock has advanced by d.
//
//go:norace
func Sleep(site int, d time.Duration) {
	if !active {
		time.Sleep(d)
		return
	}
	s := sched
	me := s.cur
	if d <= 0 {
		s.yield(site)
		return
	}
	me.state = stSleep
	me.wakeAt = s.now + int64(d)
	s.yield(site)
}

// After returns a channel that receives once the simulated clock has advanced by d.
//
//go:norace
func After(d time.Duration) <-chan time.Time {
	if !active {
		return time.After(d)
	}
	ch := make(chan time.Time, 1)
	sched.timers = append(sched.timers, timerEnt{at: sched.now + int64(d), ch: ch})
	return ch
}

// AdvanceClock moves the simulated clock forward by d (harness operation).
//
//go:norace
func AdvanceClock(d time.Duration) {
	if active {
		sched.advanceTo(sched.now + int64(d))
	}
}

// SimNow returns the simulated clock without advancing it.
//
//go:norace
func SimNow() int64 {
	if !active {
		return 0
	}
	return sched.now
}
