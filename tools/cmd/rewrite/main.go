// Command rewrite turns a scratch copy of couchbase/moss into a version whose
// synchronisation, goroutine creation, channel operations, selects, map ranges,
// clock reads and direct os calls go through verifsim/simrt.  It is
// type-directed and generic: it handles whatever the tree contains, and refuses
// (exit 2) constructs it cannot model rather than silently leaving them real.
package main

import (
	"bytes"
	"fmt"
	"go/ast"
	"go/format"
	"go/parser"
	"go/token"
	"go/types"
	"os"
	"path/filepath"
	"sort"
	"strconv"
	"strings"

	"golang.org/x/tools/go/ast/astutil"
	"golang.org/x/tools/go/packages"
)

const simPath = "verifsim/simrt"

type rewriter struct {
	fset   *token.FileSet
	pkg    *types.Package
	info   *types.Info
	sites  []string
	errs   []string
	tmp    int
	counts map[string]int
}

func (r *rewriter) site(n ast.Node, what string) ast.Expr {
	p := r.fset.Position(n.Pos())
	r.sites = append(r.sites, fmt.Sprintf("%s:%d %s", filepath.Base(p.Filename), p.Line, what))
	return &ast.BasicLit{Kind: token.INT, Value: strconv.Itoa(len(r.sites) - 1)}
}

func (r *rewriter) errf(n ast.Node, f string, a ...interface{}) {
	r.errs = append(r.errs, fmt.Sprintf("%s: %s", r.fset.Position(n.Pos()), fmt.Sprintf(f, a...)))
}

func (r *rewriter) name(prefix string) *ast.Ident {
	r.tmp++
	return ast.NewIdent(fmt.Sprintf("_sim%s%d", prefix, r.tmp))
}

func sim(name string) ast.Expr {
	return &ast.SelectorExpr{X: ast.NewIdent("simrt"), Sel: ast.NewIdent(name)}
}

func call(fn ast.Expr, args ...ast.Expr) *ast.CallExpr { return &ast.CallExpr{Fun: fn, Args: args} }

func intLit(i int) ast.Expr { return &ast.BasicLit{Kind: token.INT, Value: strconv.Itoa(i)} }

// pkgOf returns the import path when sel is a qualified identifier pkg.Name.
func (r *rewriter) pkgOf(sel *ast.SelectorExpr) string {
	id, ok := sel.X.(*ast.Ident)
	if !ok {
		return ""
	}
	if pn, ok := r.info.Uses[id].(*types.PkgName); ok {
		return pn.Imported().Path()
	}
	return ""
}

func isRecv(e ast.Expr) (*ast.UnaryExpr, bool) {
	u, ok := ast.Unparen(e).(*ast.UnaryExpr)
	if ok && u.Op == token.ARROW {
		return u, true
	}
	return nil, false
}

// recvOfStmt returns the receive expression when s is a statement-level receive.
func recvOfStmt(s ast.Stmt) *ast.UnaryExpr {
	switch s := s.(type) {
	case *ast.ExprStmt:
		if u, ok := isRecv(s.X); ok {
			return u
		}
	case *ast.AssignStmt:
		if len(s.Rhs) == 1 {
			if u, ok := isRecv(s.Rhs[0]); ok {
				return u
			}
		}
	}
	return nil
}

func (r *rewriter) isBuiltin(e ast.Expr, name string) bool {
	id, ok := e.(*ast.Ident)
	if !ok || id.Name != name {
		return false
	}
	_, ok = r.info.Uses[id].(*types.Builtin)
	return ok
}

func (r *rewriter) isMap(e ast.Expr) bool {
	t := r.info.TypeOf(e)
	if t == nil {
		return false
	}
	_, ok := t.Underlying().(*types.Map)
	return ok
}

func (r *rewriter) isChan(e ast.Expr) bool {
	t := r.info.TypeOf(e)
	if t == nil {
		return false
	}
	_, ok := t.Underlying().(*types.Chan)
	return ok
}

func (r *rewriter) file(f *ast.File) {
	handled := map[ast.Node]bool{} // receive expressions handled at statement level

	pre := func(c *astutil.Cursor) bool {
		switch n := c.Node().(type) {
		case *ast.SelectStmt:
			for _, cl := range n.Body.List {
				cc := cl.(*ast.CommClause)
				if cc.Comm != nil {
					if u := recvOfStmt(cc.Comm); u != nil {
						handled[u] = true
					}
				}
			}
		case *ast.ExprStmt, *ast.AssignStmt:
			if u := recvOfStmt(n.(ast.Stmt)); u != nil && c.Index() >= 0 {
				handled[u] = true
			}
		}
		return true
	}

	post := func(c *astutil.Cursor) bool {
		switch n := c.Node().(type) {
		case *ast.SelectorExpr:
			switch r.pkgOf(n) {
			case "sync":
				switch n.Sel.Name {
				case "Mutex", "RWMutex", "Cond", "NewCond", "WaitGroup", "Locker":
					c.Replace(sim(n.Sel.Name))
					r.counts["sync."+n.Sel.Name]++
				case "Once", "Pool", "Map":
					// left real: never block across a scheduling point
				default:
					r.errf(n, "unsupported sync.%s", n.Sel.Name)
				}
			}
		case *ast.CallExpr:
			if sel, ok := n.Fun.(*ast.SelectorExpr); ok {
				switch r.pkgOf(sel) + "." + sel.Sel.Name {
				case "time.Now":
					c.Replace(call(sim("Now")))
					r.counts["time.Now"]++
				case "time.Since":
					c.Replace(call(sim("Since"), n.Args...))
					r.counts["time.Since"]++
				case "time.Sleep":
					c.Replace(call(sim("Sleep"), append([]ast.Expr{r.site(n, "time.Sleep")}, n.Args...)...))
					r.counts["time.Sleep"]++
				case "time.After":
					c.Replace(call(sim("After"), n.Args...))
					r.counts["time.After"]++
				case "time.NewTimer", "time.NewTicker", "time.Tick", "time.AfterFunc":
					r.errf(n, "unsupported %s.%s (no simulated equivalent)", "time", sel.Sel.Name)
				case "os.Remove":
					c.Replace(call(sim("OsRemove"), append([]ast.Expr{r.site(n, "os.Remove")}, n.Args...)...))
					r.counts["os.Remove"]++
				case "os.Open":
					c.Replace(call(sim("OsOpen"), append([]ast.Expr{r.site(n, "os.Open")}, n.Args...)...))
					r.counts["os.Open"]++
				case "io/ioutil.ReadDir":
					c.Replace(call(sim("ReadDir"), append([]ast.Expr{r.site(n, "ioutil.ReadDir")}, n.Args...)...))
					r.counts["ioutil.ReadDir"]++
				}
				if r.pkgOf(sel) == "sync/atomic" {
					// (sampled) scheduling points before and after an atomic
					// operation: atomic.X(a...) -> simrt.A(simrt.AtomicPre(site), atomic.X(a...))
					name := sel.Sel.Name
					switch c.Parent().(type) {
					case *ast.DeferStmt, *ast.GoStmt:
						// arguments would be evaluated at the wrong moment: left alone
						return true
					}
					switch {
					case strings.HasPrefix(name, "Store"):
						// no result: handled at statement level (ExprStmt below)
					case strings.HasPrefix(name, "Add"), strings.HasPrefix(name, "Load"), strings.HasPrefix(name, "CompareAndSwap"), strings.HasPrefix(name, "Swap"):
						c.Replace(call(sim("A"), call(sim("AtomicPre"), r.site(n, "atomic."+name)), n))
						r.counts["atomic"]++
					}
				}
			}
			if r.isBuiltin(n.Fun, "close") && len(n.Args) == 1 {
				c.Replace(call(sim("Close"), r.site(n, "close"), n.Args[0]))
				r.counts["close"]++
			}
		case *ast.UnaryExpr:
			if n.Op == token.ARROW && !handled[n] {
				r.nestedRecv(c, n)
			}
		case *ast.GoStmt:
			r.goStmt(c, n)
		case *ast.SendStmt:
			if c.Index() < 0 {
				if _, ok := c.Parent().(*ast.CommClause); ok {
					return true // handled by the select rewrite
				}
				r.errf(n, "send statement outside a statement list")
				return true
			}
			tok := r.name("t")
			c.InsertBefore(&ast.AssignStmt{Lhs: []ast.Expr{tok}, Tok: token.DEFINE,
				Rhs: []ast.Expr{call(sim("ChanPre"), r.site(n, "send"), n.Chan, intLit(1))}})
			c.InsertAfter(&ast.ExprStmt{X: call(sim("ChanPost"), tok)})
			r.counts["send"]++
		case *ast.ExprStmt, *ast.AssignStmt:
			if es, ok := n.(*ast.ExprStmt); ok && c.Index() >= 0 {
				if ce, ok := es.X.(*ast.CallExpr); ok {
					if sel, ok := ce.Fun.(*ast.SelectorExpr); ok && r.pkgOf(sel) == "sync/atomic" && strings.HasPrefix(sel.Sel.Name, "Store") {
						c.InsertBefore(&ast.ExprStmt{X: call(sim("AtomicPre"), r.site(ce, "atomic."+sel.Sel.Name))})
						c.InsertAfter(&ast.ExprStmt{X: call(sim("AtomicPost"))})
						r.counts["atomic"]++
					}
				}
			}
			u := recvOfStmt(n.(ast.Stmt))
			if u == nil {
				return true
			}
			if c.Index() < 0 {
				if _, ok := c.Parent().(*ast.CommClause); ok {
					return true
				}
				r.errf(n, "receive statement outside a statement list")
				return true
			}
			tok := r.name("t")
			c.InsertBefore(&ast.AssignStmt{Lhs: []ast.Expr{tok}, Tok: token.DEFINE,
				Rhs: []ast.Expr{call(sim("ChanPre"), r.site(n, "recv"), u.X, intLit(0))}})
			c.InsertAfter(&ast.ExprStmt{X: call(sim("ChanPost"), tok)})
			r.counts["recv"]++
		case *ast.SelectStmt:
			r.selectStmt(c, n)
		case *ast.LabeledStmt:
			if sel, ok := n.Stmt.(*ast.SelectStmt); ok {
				c.Replace(r.selectBlock(sel, n.Label))
			}
		case *ast.RangeStmt:
			if r.isChan(n.X) {
				r.chanRange(c, n)
			} else if r.isMap(n.X) {
				r.mapRange(c, n)
			}
		}
		return true
	}
	astutil.Apply(f, pre, post)
}

func (r *rewriter) goStmt(c *astutil.Cursor, n *ast.GoStmt) {
	if c.Index() < 0 {
		r.errf(n, "go statement outside a statement list")
		return
	}
	r.counts["go"]++
	cl := n.Call
	what := "go " + exprString(cl.Fun)
	if lit, ok := cl.Fun.(*ast.FuncLit); ok && len(cl.Args) == 0 {
		what = "go func"
		c.Replace(&ast.ExprStmt{X: call(sim("Go"), r.site(n, what), lit)})
		return
	}
	if cl.Ellipsis.IsValid() || len(cl.Args) > 3 {
		r.errf(n, "go statement with variadic or >3 arguments is not supported")
		return
	}
	// does the callee return values?
	hasRes := false
	if sig, ok := r.info.TypeOf(cl.Fun).Underlying().(*types.Signature); ok {
		hasRes = sig.Results().Len() > 0
		if sig.Results().Len() > 1 {
			r.errf(n, "go statement calling a function with >1 results is not supported")
			return
		}
	}
	name := fmt.Sprintf("Go%d", len(cl.Args))
	if hasRes {
		name += "R"
	}
	args := append([]ast.Expr{r.site(n, what), cl.Fun}, cl.Args...)
	c.Replace(&ast.ExprStmt{X: call(sim(name), args...)})
}

// nestedRecv turns a receive inside a larger expression into an immediately
// invoked function literal of the element type, so that it cannot escape the model.
func (r *rewriter) nestedRecv(c *astutil.Cursor, n *ast.UnaryExpr) {
	t := r.info.TypeOf(n)
	if t == nil {
		r.errf(n, "cannot type a nested channel receive")
		return
	}
	if _, isTuple := t.(*types.Tuple); isTuple {
		r.errf(n, "comma-ok channel receive nested inside a statement header is not supported by the rewriter")
		return
	}
	ts := types.TypeString(t, func(p *types.Package) string {
		if p == r.pkg {
			return ""
		}
		return p.Name()
	})
	texpr, err := parser.ParseExpr(ts)
	if err != nil {
		r.errf(n, "cannot print type %s of a nested channel receive", ts)
		return
	}
	r.counts["nested-recv"]++
	tok := r.name("t")
	val := r.name("v")
	lit := &ast.FuncLit{
		Type: &ast.FuncType{Params: &ast.FieldList{}, Results: &ast.FieldList{List: []*ast.Field{{Type: texpr}}}},
		Body: &ast.BlockStmt{List: []ast.Stmt{
			&ast.AssignStmt{Lhs: []ast.Expr{tok}, Tok: token.DEFINE, Rhs: []ast.Expr{call(sim("ChanPre"), r.site(n, "recv"), n.X, intLit(0))}},
			&ast.AssignStmt{Lhs: []ast.Expr{val}, Tok: token.DEFINE, Rhs: []ast.Expr{&ast.UnaryExpr{Op: token.ARROW, X: n.X}}},
			&ast.ExprStmt{X: call(sim("ChanPost"), tok)},
			&ast.ReturnStmt{Results: []ast.Expr{val}},
		}}}
	c.Replace(&ast.CallExpr{Fun: lit})
}

func exprString(e ast.Expr) string {
	var b bytes.Buffer
	format.Node(&b, token.NewFileSet(), e)
	s := b.String()
	if i := strings.IndexByte(s, '\n'); i >= 0 {
		s = s[:i]
	}
	if len(s) > 40 {
		s = s[:40]
	}
	return s
}

func (r *rewriter) selectStmt(c *astutil.Cursor, n *ast.SelectStmt) {
	if _, ok := c.Parent().(*ast.LabeledStmt); ok {
		return // rewritten when the LabeledStmt itself is visited
	}
	c.Replace(r.selectBlock(n, nil))
}

// selectBlock builds `{ c0 := ch0; ...; i, t := simrt.Select(...); [label:] switch i {...} }`.
func (r *rewriter) selectBlock(n *ast.SelectStmt, label *ast.Ident) *ast.BlockStmt {
	r.counts["select"]++
	var pre []ast.Stmt
	var cases []ast.Expr
	hasDefault := false
	idx := r.name("i")
	tok := r.name("t")
	sw := &ast.SwitchStmt{Tag: idx, Body: &ast.BlockStmt{}}
	k := 0
	for _, cl := range n.Body.List {
		cc := cl.(*ast.CommClause)
		if cc.Comm == nil {
			hasDefault = true
			sw.Body.List = append(sw.Body.List, &ast.CaseClause{List: nil, Body: cc.Body})
			continue
		}
		chv := r.name("c")
		var chExpr ast.Expr
		dir := 0
		switch s := cc.Comm.(type) {
		case *ast.SendStmt:
			chExpr = s.Chan
			s.Chan = chv
			dir = 1
		default:
			u := recvOfStmt(s)
			if u == nil {
				r.errf(cc, "unrecognised select communication clause")
				return &ast.BlockStmt{}
			}
			chExpr = u.X
			u.X = chv
		}
		pre = append(pre, &ast.AssignStmt{Lhs: []ast.Expr{chv}, Tok: token.DEFINE, Rhs: []ast.Expr{chExpr}})
		cases = append(cases, &ast.CompositeLit{Type: sim("Case"), Elts: []ast.Expr{
			&ast.KeyValueExpr{Key: ast.NewIdent("Ch"), Value: chv},
			&ast.KeyValueExpr{Key: ast.NewIdent("Dir"), Value: intLit(dir)}}})
		body := append([]ast.Stmt{cc.Comm, &ast.ExprStmt{X: call(sim("ChanPost"), tok)}}, cc.Body...)
		sw.Body.List = append(sw.Body.List, &ast.CaseClause{List: []ast.Expr{intLit(k)}, Body: body})
		k++
	}
	def := "false"
	if hasDefault {
		def = "true"
	}
	args := append([]ast.Expr{r.site(n, "select"), ast.NewIdent(def)}, cases...)
	pre = append(pre,
		&ast.AssignStmt{Lhs: []ast.Expr{idx, tok}, Tok: token.DEFINE, Rhs: []ast.Expr{call(sim("Select"), args...)}},
		&ast.AssignStmt{Lhs: []ast.Expr{ast.NewIdent("_")}, Tok: token.ASSIGN, Rhs: []ast.Expr{tok}})
	if label != nil {
		pre = append(pre, &ast.LabeledStmt{Label: label, Stmt: sw})
	} else {
		pre = append(pre, sw)
	}
	return &ast.BlockStmt{List: pre}
}

// chanRange rewrites `for v := range ch { body }` into an explicit receive loop.
func (r *rewriter) chanRange(c *astutil.Cursor, n *ast.RangeStmt) {
	r.counts["chanrange"]++
	chv := r.name("c")
	tok := r.name("t")
	okv := r.name("ok")
	var recv ast.Stmt
	rx := &ast.UnaryExpr{Op: token.ARROW, X: chv}
	isBlank := n.Key == nil
	if id, ok := n.Key.(*ast.Ident); ok && id.Name == "_" {
		isBlank = true
	}
	if isBlank {
		recv = &ast.AssignStmt{Lhs: []ast.Expr{ast.NewIdent("_"), okv}, Tok: token.DEFINE, Rhs: []ast.Expr{rx}}
	} else if n.Tok == token.ASSIGN {
		recv = &ast.AssignStmt{Lhs: []ast.Expr{n.Key, okv}, Tok: token.ASSIGN, Rhs: []ast.Expr{rx}}
	} else {
		recv = &ast.AssignStmt{Lhs: []ast.Expr{n.Key, okv}, Tok: token.DEFINE, Rhs: []ast.Expr{rx}}
	}
	var body []ast.Stmt
	if n.Tok == token.ASSIGN && !isBlank {
		body = append(body, &ast.DeclStmt{Decl: &ast.GenDecl{Tok: token.VAR, Specs: []ast.Spec{&ast.ValueSpec{Names: []*ast.Ident{okv}, Type: ast.NewIdent("bool")}}}})
	}
	body = append(body,
		&ast.AssignStmt{Lhs: []ast.Expr{tok}, Tok: token.DEFINE, Rhs: []ast.Expr{call(sim("ChanPre"), r.site(n, "range chan"), chv, intLit(0))}},
		recv,
		&ast.ExprStmt{X: call(sim("ChanPost"), tok)},
		&ast.IfStmt{Cond: &ast.UnaryExpr{Op: token.NOT, X: okv}, Body: &ast.BlockStmt{List: []ast.Stmt{&ast.BranchStmt{Tok: token.BREAK}}}})
	body = append(body, n.Body.List...)
	loop := &ast.ForStmt{Body: &ast.BlockStmt{List: body}}
	if _, ok := c.Parent().(*ast.LabeledStmt); ok {
		// keep the label on the loop; the channel expression is evaluated per
		// iteration (it must be side-effect free)
		ast.Inspect(loop, func(x ast.Node) bool {
			if id, ok := x.(*ast.Ident); ok && id == chv {
				return false
			}
			return true
		})
		for _, st := range body {
			replaceIdent(st, chv, n.X)
		}
		c.Replace(loop)
		return
	}
	c.Replace(&ast.BlockStmt{List: []ast.Stmt{
		&ast.AssignStmt{Lhs: []ast.Expr{chv}, Tok: token.DEFINE, Rhs: []ast.Expr{n.X}},
		loop}})
}

func replaceIdent(root ast.Node, id *ast.Ident, with ast.Expr) {
	astutil.Apply(root, nil, func(c *astutil.Cursor) bool {
		if x, ok := c.Node().(*ast.Ident); ok && x == id {
			c.Replace(with)
		}
		return true
	})
}

func (r *rewriter) mapRange(c *astutil.Cursor, n *ast.RangeStmt) {
	mt := r.info.TypeOf(n.X).Underlying().(*types.Map)
	if b, ok := mt.Key().Underlying().(*types.Basic); !ok || b.Info()&types.IsOrdered == 0 {
		r.errf(n, "range over a map with non-ordered key type %s is not supported", mt.Key())
		return
	}
	r.counts["maprange"]++
	mv := r.name("m")
	kv := r.name("k")
	okv := r.name("ok")
	tokDef := n.Tok
	if tokDef == token.ILLEGAL {
		tokDef = token.DEFINE
	}
	var prologue []ast.Stmt
	isBlank := func(e ast.Expr) bool {
		if e == nil {
			return true
		}
		id, ok := e.(*ast.Ident)
		return ok && id.Name == "_"
	}
	if !isBlank(n.Value) {
		prologue = append(prologue, &ast.AssignStmt{Lhs: []ast.Expr{n.Value, okv}, Tok: tokDef,
			Rhs: []ast.Expr{&ast.IndexExpr{X: mv, Index: kv}}})
		if tokDef == token.ASSIGN {
			// `v, ok = m[k]` needs ok declared
			prologue = []ast.Stmt{
				&ast.DeclStmt{Decl: &ast.GenDecl{Tok: token.VAR, Specs: []ast.Spec{&ast.ValueSpec{Names: []*ast.Ident{okv}, Type: ast.NewIdent("bool")}}}},
				prologue[0]}
		}
	} else {
		prologue = append(prologue, &ast.AssignStmt{Lhs: []ast.Expr{ast.NewIdent("_"), okv}, Tok: token.DEFINE,
			Rhs: []ast.Expr{&ast.IndexExpr{X: mv, Index: kv}}})
	}
	prologue = append(prologue, &ast.IfStmt{Cond: &ast.UnaryExpr{Op: token.NOT, X: okv},
		Body: &ast.BlockStmt{List: []ast.Stmt{&ast.BranchStmt{Tok: token.CONTINUE}}}})
	if !isBlank(n.Key) {
		prologue = append(prologue, &ast.AssignStmt{Lhs: []ast.Expr{n.Key}, Tok: tokDef, Rhs: []ast.Expr{kv}})
	}
	loop := &ast.RangeStmt{Key: ast.NewIdent("_"), Value: kv, Tok: token.DEFINE,
		X:    call(sim("MapKeys"), r.site(n, "range map"), mv),
		Body: &ast.BlockStmt{List: append(prologue, n.Body.List...)}}
	assign := &ast.AssignStmt{Lhs: []ast.Expr{mv}, Tok: token.DEFINE, Rhs: []ast.Expr{n.X}}
	if lab, ok := c.Parent().(*ast.LabeledStmt); ok {
		// keep the label on the loop: `L: for` becomes `{ m := X; L: for ... }`
		// by replacing the labeled statement's inner statement with the loop and
		// hoisting the map evaluation into the range expression itself.
		_ = lab
		loop.X = call(sim("MapKeys"), r.site(n, "range map"), n.X)
		// re-reads use the original expression (must be side-effect free)
		for _, st := range prologue {
			if as, ok := st.(*ast.AssignStmt); ok {
				if ix, ok := as.Rhs[0].(*ast.IndexExpr); ok && ix.X == ast.Expr(mv) {
					ix.X = n.X
				}
			}
		}
		c.Replace(loop)
		return
	}
	c.Replace(&ast.BlockStmt{List: []ast.Stmt{assign, loop}})
}

func usesPkgIdent(f *ast.File, name string) bool {
	used := false
	ast.Inspect(f, func(n ast.Node) bool {
		if sel, ok := n.(*ast.SelectorExpr); ok {
			if id, ok := sel.X.(*ast.Ident); ok && id.Name == name && id.Obj == nil {
				used = true
			}
		}
		return !used
	})
	return used
}

func main() {
	if len(os.Args) != 2 {
		fmt.Fprintln(os.Stderr, "usage: rewrite <dir>")
		os.Exit(2)
	}
	dir := os.Args[1]
	cfg := &packages.Config{Mode: packages.LoadSyntax, Dir: dir, Env: append(os.Environ(), "GOFLAGS=-mod=mod")}
	pkgs, err := packages.Load(cfg, ".")
	if err != nil {
		fmt.Fprintln(os.Stderr, "rewrite: load:", err)
		os.Exit(2)
	}
	if len(pkgs) != 1 {
		fmt.Fprintln(os.Stderr, "rewrite: expected one package, got", len(pkgs))
		os.Exit(2)
	}
	pkg := pkgs[0]
	if len(pkg.Errors) > 0 {
		for _, e := range pkg.Errors {
			fmt.Fprintln(os.Stderr, "rewrite: type error:", e)
		}
		os.Exit(2)
	}
	r := &rewriter{fset: pkg.Fset, pkg: pkg.Types, info: pkg.TypesInfo, counts: map[string]int{}}
	for i, f := range pkg.Syntax {
		before := len(r.sites)
		r.file(f)
		fname := pkg.CompiledGoFiles[i]
		if len(r.sites) == before && !changed(r, f) {
			// still may contain sync.* replacements: detect by simrt usage
		}
		// drop comments (new nodes carry no positions, so the printer would
		// scatter them); keep what precedes the package clause (build tags).
		var keep []*ast.CommentGroup
		for _, cg := range f.Comments {
			if cg.End() < f.Package {
				keep = append(keep, cg)
			}
		}
		f.Comments = keep
		if usesPkgIdent(f, "simrt") {
			astutil.AddImport(pkg.Fset, f, simPath)
		}
		for _, imp := range []struct{ name, path string }{{"sync", "sync"}, {"time", "time"}, {"ioutil", "io/ioutil"}, {"os", "os"}} {
			if !usesPkgIdent(f, imp.name) {
				astutil.DeleteImport(pkg.Fset, f, imp.path)
			}
		}
		var buf bytes.Buffer
		if err := format.Node(&buf, pkg.Fset, f); err != nil {
			fmt.Fprintln(os.Stderr, "rewrite: print:", fname, err)
			os.Exit(2)
		}
		if err := os.WriteFile(fname, buf.Bytes(), 0644); err != nil {
			fmt.Fprintln(os.Stderr, "rewrite:", err)
			os.Exit(2)
		}
	}
	if len(r.errs) > 0 {
		for _, e := range r.errs {
			fmt.Fprintln(os.Stderr, "rewrite: unsupported:", e)
		}
		os.Exit(2)
	}
	// site table
	var b strings.Builder
	fmt.Fprintf(&b, "package %s\n\nimport \"%s\"\n\nfunc init() {\n\tsimrt.RegisterSites([]string{\n", pkg.Name, simPath)
	for _, s := range r.sites {
		fmt.Fprintf(&b, "\t\t%q,\n", s)
	}
	b.WriteString("\t})\n}\n")
	if err := os.WriteFile(filepath.Join(dir, "zz_simsites.go"), []byte(b.String()), 0644); err != nil {
		fmt.Fprintln(os.Stderr, "rewrite:", err)
		os.Exit(2)
	}
	keys := make([]string, 0, len(r.counts))
	for k := range r.counts {
		keys = append(keys, k)
	}
	sort.Strings(keys)
	for _, k := range keys {
		fmt.Printf("rewrite: %-16s %d\n", k, r.counts[k])
	}
	fmt.Printf("rewrite: sites %d\n", len(r.sites))
}

func changed(r *rewriter, f *ast.File) bool { return false }
