// Command vcheck is the supervisor behind ./check: it rebuilds the simulation
// worker from /repo's working tree, fans out worker processes, aggregates
// their results, matches violations against known_findings.json, minimises
// what is left, writes the evidence file and maps exit codes
// (0 held, 1 violation, 2 infrastructure trouble).
package main

import (
	"bufio"
	"encoding/json"
	"fmt"
	"os"
	"os/exec"
	"path/filepath"
	"sort"
	"strconv"
	"strings"
	"sync"
	"time"
)

const verifDir = "/verif"

type violation struct {
	Prop   string            `json:"prop"`
	Class  string            `json:"class"`
	Msg    string            `json:"msg"`
	OpIdx  int               `json:"opIdx"`
	Detail map[string]string `json:"detail"`
	Stack  string            `json:"stack"`
}

type outcome struct {
	Violation  *violation     `json:"violation"`
	Steps      int64          `json:"steps"`
	Switches   int64          `json:"switches"`
	SimNanos   int64          `json:"simNanos"`
	TraceHash  uint64         `json:"traceHash"`
	InterHash  uint64         `json:"interHash"`
	CaseHash   uint64         `json:"caseHash"`
	Tasks      int            `json:"tasks"`
	Stranded   int            `json:"stranded"`
	StepLimit  bool           `json:"stepLimit"`
	Faults     map[string]int `json:"faults"`
	Probes     map[string]int `json:"probes"`
	Shapes     []string       `json:"shapes"`
	NonTrivial bool           `json:"nonTrivial"`
	FileOps    int            `json:"fileOps"`
	Images     int            `json:"images"`
	Checks     int            `json:"checks"`
	CrashPoints int           `json:"crashPoints"`
	FaultPoints int           `json:"faultPoints"`
	PolicyKind string         `json:"policyKind"`
	RaceReports int           `json:"raceReports"`
}

type line struct {
	Index   int             `json:"index"`
	Outcome *outcome        `json:"outcome"`
	Replay  string          `json:"replay"`
	Err     string          `json:"err"`
	WallUS  int64           `json:"wallUS"`
	Sample  json.RawMessage `json:"sample"`
	Known   string          `json:"known"`
}

type knownFinding struct {
	ID       string            `json:"id"`
	Property string            `json:"property"`
	What     string            `json:"what"`
	Classes  []string          `json:"classes"`  // violation classes (symptom part)
	Trigger  map[string]string `json:"trigger"`  // detail facts that must all hold
	Symptom  map[string]string `json:"symptom"`  // detail facts of the failing clause
	MsgHas   []string          `json:"msgHas"`   // substrings the message must contain
	Example  string            `json:"example"`
}

type knownFile struct {
	Fixed []string       `json:"fixed"`
	Known []knownFinding `json:"known"`
}

type propInfo struct {
	level      string
	quickS     int
	thoroughS  int
	race       bool
	rule       string
	assumptions []string
}

var props = map[string]propInfo{}

func init() {
	common := []string{
		"sampling, not proof: a clean batch is evidence only",
		"context switches happen at synchronisation, channel, I/O, clock and go-statement points (sufficient for data-race-free code; races are C17's subject)",
		"simrt.Mutex/Cond/WaitGroup replace sync's with the documented semantics; the source rewriter preserves moss's semantics",
		"tmpfs + mmap stand in for a disk; the crash model is the one stated in C05",
	}
	for _, id := range []string{"C01", "C02", "C03", "C04", "C07", "C08", "C09", "C10", "C11", "C12", "C13", "C15", "C16", "C19", "C20"} {
		props[id] = propInfo{level: "exploration", quickS: 35, thoroughS: 900, assumptions: common,
			rule: "cases are generated from VERIF_SEED x run index (options swarm, workload program, scheduling policy, scheduler seed); a case counts as distinct by (case hash, interleaving hash) and as non-trivial when at least one background task step ran between two driver operations and at least one oracle comparison involved >= 2 non-empty sections (or a fault / crash image / overlapping concurrent call)"}
	}
	props["C17"] = propInfo{level: "exploration", quickS: 50, thoroughS: 900, race: true, assumptions: append(common, "Go race detector's happens-before model; baton handed over raw pipes so the scheduler adds no edges"),
		rule: "concurrent multi-driver cases under the -race build; distinct by (case hash, interleaving hash); non-trivial when driver calls overlapped with background work"}
	props["C05"] = propInfo{level: "fault_enumeration", quickS: 50, thoroughS: 900, assumptions: common,
		rule: "for every recorded file-op trace: every crash point x the image set of DESIGN 3.3 (K: prefix + torn last write; M: per-file synced prefix + subsets of page blocks + length variants); distinct_nontrivial counts distinct image hashes that contain at least one complete footer"}
	props["C06"] = propInfo{level: "fault_enumeration", quickS: 55, thoroughS: 900, assumptions: common,
		rule: "for every fault-free trace: one re-run per (fault-eligible file-op index x applicable error kind), plus bursts and persistent faults; distinct_nontrivial counts distinct (case hash, fault index, kind) runs in which the fault actually fired"}
	props["C18"] = propInfo{level: "exploration", quickS: 35, thoroughS: 900, assumptions: common,
		rule: "directories left by clean runs and by K/M crash images plus junk files, each opened ReadOnly under the option swarm and driven by read/batch/notify/close programs; distinct by (directory hash, program hash); non-trivial when the directory holds >= 1 valid footer and >= 2 files or a torn tail"}
}

func die(code int, format string, a ...interface{}) {
	fmt.Fprintf(os.Stderr, "check: "+format+"\n", a...)
	os.Exit(code)
}

func main() {
	if len(os.Args) < 3 {
		die(2, "usage: vcheck <property> <quick|thorough> | vcheck replay <file>")
	}
	if os.Args[1] == "replay" {
		os.Exit(replay(os.Args[2]))
	}
	prop, tier := os.Args[1], os.Args[2]
	pi, ok := props[prop]
	if !ok {
		die(2, "unknown or unclaimed property %s", prop)
	}
	seed := uint64(1)
	if s := os.Getenv("VERIF_SEED"); s != "" {
		v, err := strconv.ParseUint(s, 10, 64)
		if err != nil {
			// accept negative / arbitrary ints by hashing the text
			var h uint64 = 1469598103934665603
			for _, c := range s {
				h = (h ^ uint64(c)) * 1099511628211
			}
			v = h
		}
		seed = v
	}
	if t := os.Getenv("VERIF_TIER"); t == "quick" || t == "thorough" {
		tier = t
	}
	budget := pi.quickS
	if tier == "thorough" {
		budget = pi.thoroughS
	}
	if s := os.Getenv("VERIF_BUDGET_S"); s != "" {
		if v, err := strconv.Atoi(s); err == nil && v > 0 {
			budget = v
		}
	}
	start := time.Now()
	fmt.Printf("check: property=%s tier=%s VERIF_SEED=%d budget=%ds\n", prop, tier, seed, budget)

	what := "plain"
	if pi.race {
		what = "race"
	}
	bout, err := exec.Command(filepath.Join(verifDir, "build.sh"), what).Output()
	if err != nil {
		if ee, ok := err.(*exec.ExitError); ok {
			os.Stderr.Write(ee.Stderr)
		}
		die(2, "build failed: %v", err)
	}
	bindir := strings.TrimSpace(string(bout))
	bin := filepath.Join(bindir, "mosssim")
	if pi.race {
		bin = filepath.Join(bindir, "mosssim-race")
	}

	// the search budget starts once the worker has been (re)built
	searchStart := time.Now()
	workers := 16
	if s := os.Getenv("VERIF_WORKERS"); s != "" {
		if v, err := strconv.Atoi(s); err == nil && v > 0 {
			workers = v
		}
	}
	rpdir := filepath.Join(verifDir, "replays", "tmp")
	os.MkdirAll(rpdir, 0755)

	var mu sync.Mutex
	var lines []line
	infra := ""
	var wg sync.WaitGroup
	for w := 0; w < workers; w++ {
		wg.Add(1)
		go func(w int) {
			defer wg.Done()
			// a worker process is restarted every chunk of wall-clock so that
			// leaked resources of abnormal runs stay bounded
			deadline := searchStart.Add(time.Duration(budget) * time.Second)
			idx := w
			for time.Now().Before(deadline) {
				left := time.Until(deadline)
				chunk := 60 * time.Second
				if left < chunk {
					chunk = left
				}
				cmd := exec.Command(bin, "-prop", prop, "-seed", fmt.Sprint(seed), "-tier", tier,
					"-start", fmt.Sprint(idx), "-stride", fmt.Sprint(workers), "-budget", chunk.String(),
					"-outdir", rpdir, "-maxviol", "4")
				rl := fmt.Sprintf("/dev/shm/verif-race-%d-%d", os.Getpid(), w)
				cmd.Env = append(os.Environ(), "GOMAXPROCS=1", "GORACE=halt_on_error=0 exitcode=0 log_path="+rl, "VERIF_RACELOG="+rl)
				defer func() {
					if ms, _ := filepath.Glob(rl + ".*"); ms != nil {
						for _, m := range ms {
							os.Remove(m)
						}
					}
				}()
				stdout, _ := cmd.StdoutPipe()
				var stderr strings.Builder
				cmd.Stderr = &stderr
				if err := cmd.Start(); err != nil {
					mu.Lock()
					infra = "cannot start worker: " + err.Error()
					mu.Unlock()
					return
				}
				sc := bufio.NewScanner(stdout)
				sc.Buffer(make([]byte, 1<<20), 64<<20)
				last := idx - workers
				nviol := 0
				for sc.Scan() {
					var l line
					if err := json.Unmarshal(sc.Bytes(), &l); err != nil {
						continue
					}
					last = l.Index
					if l.Outcome != nil && l.Outcome.Violation != nil && l.Known == "" {
						nviol++
					}
					mu.Lock()
					lines = append(lines, l)
					mu.Unlock()
				}
				err := cmd.Wait()
				idx = last + workers
				if err != nil {
					mu.Lock()
					if infra == "" {
						infra = fmt.Sprintf("worker %d failed at index %d: %v\n%s", w, idx, err, tail(stderr.String(), 4000))
					}
					mu.Unlock()
					return
				}
				if nviol >= 4 {
					return // enough to report
				}
			}
		}(w)
	}
	wg.Wait()
	if infra != "" {
		die(2, "%s", infra)
	}
	os.Exit(report(prop, tier, seed, pi, lines, start, bin))
}

func tail(s string, n int) string {
	if len(s) > n {
		return s[len(s)-n:]
	}
	return s
}

func loadKnown() knownFile {
	var kf knownFile
	b, err := os.ReadFile(filepath.Join(verifDir, "known_findings.json"))
	if err == nil {
		json.Unmarshal(b, &kf)
	}
	return kf
}

func (k *knownFinding) matches(prop string, v *violation) bool {
	if k.Property != prop && k.Property != v.Prop {
		return false
	}
	okc := len(k.Classes) == 0
	for _, c := range k.Classes {
		if c == v.Class {
			okc = true
		}
	}
	if !okc {
		return false
	}
	for key, want := range k.Trigger {
		if !factMatches(v.Detail[key], want) {
			return false
		}
	}
	for key, want := range k.Symptom {
		if !factMatches(v.Detail[key], want) {
			return false
		}
	}
	for _, s := range k.MsgHas {
		if !strings.Contains(v.Msg, s) {
			return false
		}
	}
	return true
}

// factMatches: want may be "a|b" alternatives, "!x" negation, or ">0".
func factMatches(got, want string) bool {
	if strings.HasPrefix(want, "!") {
		return got != want[1:]
	}
	if want == ">0" {
		n, err := strconv.Atoi(got)
		return err == nil && n > 0
	}
	for _, alt := range strings.Split(want, "|") {
		if got == alt {
			return true
		}
	}
	return false
}

func report(prop, tier string, seed uint64, pi propInfo, lines []line, start time.Time, bin string) int {
	sort.Slice(lines, func(i, j int) bool { return lines[i].Index < lines[j].Index })
	kf := loadKnown()
	type key struct{ c, i uint64 }
	distinct := map[key]bool{}
	inter := map[uint64]bool{}
	shapes := map[string]bool{}
	faults := map[string]int{}
	probes := map[string]int{}
	policies := map[string]int{}
	var steps, switches, simNanos, wallUS int64
	var stepLimit, stranded, images, fileOps, checks, crashPts, faultPts, races int
	var samples []json.RawMessage
	evals := 0
	var viols []line
	for _, l := range lines {
		if l.Err != "" {
			die(2, "worker error: %s", l.Err)
		}
		o := l.Outcome
		if o == nil {
			continue
		}
		evals++
		steps += o.Steps
		switches += o.Switches
		simNanos += o.SimNanos
		wallUS += l.WallUS
		images += o.Images
		fileOps += o.FileOps
		checks += o.Checks
		crashPts += o.CrashPoints
		faultPts += o.FaultPoints
		races += o.RaceReports
		if o.StepLimit {
			stepLimit++
		}
		stranded += o.Stranded
		if o.NonTrivial {
			distinct[key{o.CaseHash, o.InterHash}] = true
		}
		inter[o.InterHash] = true
		for _, s := range o.Shapes {
			shapes[s] = true
		}
		for k, v := range o.Faults {
			faults[k] += v
		}
		for k, v := range o.Probes {
			probes[k] += v
		}
		policies[o.PolicyKind]++
		if len(l.Sample) > 0 && len(samples) < 3 {
			samples = append(samples, l.Sample)
		}
		if o.Violation != nil {
			viols = append(viols, l)
		}
	}
	// violations: known findings first
	knownHit := map[string]int{}
	var fresh []line
	for _, l := range viols {
		matched := false
		for i := range kf.Known {
			k := &kf.Known[i]
			if k.matches(prop, l.Outcome.Violation) {
				knownHit[k.ID]++
				matched = true
				break
			}
		}
		if !matched {
			fresh = append(fresh, l)
		}
	}
	for _, k := range kf.Known {
		if knownHit[k.ID] > 0 {
			fmt.Printf("KNOWN-FINDING: property=%s %s (%s; hit %d times in this run)\n", k.Property, k.What, k.ID, knownHit[k.ID])
		}
	}
	exit := 0
	reported := map[string]bool{}
	for _, l := range fresh {
		v := l.Outcome.Violation
		sig := v.Prop + "/" + v.Class + "/" + v.Detail["symptom"]
		if reported[sig] {
			continue
		}
		reported[sig] = true
		final := l.Replay
		if final != "" {
			rdir := filepath.Join(verifDir, "replays")
			if d := os.Getenv("VERIF_REPLAY_DIR"); d != "" {
				rdir = d
				os.MkdirAll(rdir, 0755)
			}
			keep := filepath.Join(rdir, filepath.Base(l.Replay))
			min := strings.TrimSuffix(keep, ".json") + ".min.json"
			if err := os.Rename(l.Replay, keep); err != nil {
				// other file system: copy
				if b, rerr := os.ReadFile(l.Replay); rerr == nil && os.WriteFile(keep, b, 0644) == nil {
					os.Remove(l.Replay)
				} else {
					keep = l.Replay
				}
			}
			final = keep
			// minimise in a fresh process (bounded)
			cmd := exec.Command(bin, "-minimise", keep, "-minout", min, "-budget", "60s")
			cmd.Env = append(os.Environ(), "GOMAXPROCS=1")
			if out, err := cmd.CombinedOutput(); err == nil {
				if _, serr := os.Stat(min); serr == nil {
					final = min
				}
			} else {
				fmt.Fprintf(os.Stderr, "check: minimisation failed (%v): %s\n", err, tail(string(out), 500))
			}
		}
		fmt.Printf("VIOLATION property=%s replay=%s\n", v.Prop, final)
		fmt.Printf("  class=%s index=%d op=%d: %s\n", v.Class, l.Index, v.OpIdx, v.Msg)
		exit = 1
	}
	wall := time.Since(start).Seconds()
	cov := map[string]interface{}{
		"evaluations":         evals,
		"distinct_nontrivial": len(distinct),
		"rule":                pi.rule,
		"samples":             samples,
		"exhaustive":          false,
		"scheduling_points":   steps,
		"task_switches":       switches,
		"simulated_seconds":   float64(simNanos) / 1e9,
		"distinct_interleavings": len(inter),
		"distinct_shapes":     len(shapes),
		"shapes":              keysOf(shapes, 40),
		"faults_fired":        faults,
		"reach_probes":        probes,
		"policies":            policies,
		"runs_hitting_step_limit": stepLimit,
		"stranded_tasks":      stranded,
		"oracle_checks":       checks,
		"file_ops_recorded":   fileOps,
		"crash_images_opened": images,
		"crash_points":        crashPts,
		"fault_points":        faultPts,
		"race_reports":        races,
		"runs_per_hour":       int(float64(evals) / wall * 3600),
		"known_findings_hit":  knownHit,
		"real_components":     []string{"all non-test moss sources (rewritten only at sync/chan/go/select/map-range/time/os call sites)", "blevesearch/mmap-go", "couchbase/ghistogram", "tmpfs files and real mmap"},
		"stubbed_components":  []string{"sync.Mutex/Cond/WaitGroup (scheduler-owned models)", "goroutine scheduling", "clock", "os.Remove/ReadDir/Open pass-throughs with recording", "StoreOptions.OpenFile wrapper (recording + fault injection)", "map lower level (C13)", "merge operator"},
	}
	ev := map[string]interface{}{
		"property_id": prop,
		"tier":        tier,
		"seed":        seed,
		"level":       pi.level,
		"coverage":    cov,
		"assumptions": pi.assumptions,
		"wall_s":      wall,
		"violations":  len(fresh),
	}
	b, _ := json.MarshalIndent(ev, "", " ")
	evdir := filepath.Join(verifDir, "evidence")
	if d := os.Getenv("VERIF_EVIDENCE_DIR"); d != "" {
		evdir = d // background sweeps must not overwrite the registered evidence
	}
	os.MkdirAll(evdir, 0755)
	if err := os.WriteFile(filepath.Join(evdir, prop+".json"), b, 0644); err != nil {
		die(2, "cannot write evidence: %v", err)
	}
	fmt.Printf("check: %d runs, %d distinct non-trivial, %d scheduling points, %d violations (%d known), %.1fs\n",
		evals, len(distinct), steps, len(viols), len(viols)-len(fresh), wall)
	if evals == 0 {
		die(2, "no run completed")
	}
	return exit
}

func keysOf(m map[string]bool, max int) []string {
	var out []string
	for k := range m {
		out = append(out, k)
	}
	sort.Strings(out)
	if len(out) > max {
		out = out[:max]
	}
	return out
}

func replay(path string) int {
	b, err := os.ReadFile(path)
	if err != nil {
		die(2, "%v", err)
	}
	var rf struct {
		Case struct {
			Prop string `json:"prop"`
		} `json:"case"`
	}
	if err := json.Unmarshal(b, &rf); err != nil {
		die(2, "%v", err)
	}
	what := "plain"
	if pi, ok := props[rf.Case.Prop]; ok && pi.race {
		what = "race"
	}
	bout, err := exec.Command(filepath.Join(verifDir, "build.sh"), what).Output()
	if err != nil {
		die(2, "build failed: %v", err)
	}
	bin := filepath.Join(strings.TrimSpace(string(bout)), "mosssim")
	if what == "race" {
		bin += "-race"
	}
	cmd := exec.Command(bin, "-replay", path)
	cmd.Stdout, cmd.Stderr = os.Stdout, os.Stderr
	cmd.Env = append(os.Environ(), "GORACE=halt_on_error=0 exitcode=0")
	if err := cmd.Run(); err != nil {
		if ee, ok := err.(*exec.ExitError); ok {
			return ee.ExitCode()
		}
		return 2
	}
	return 0
}
